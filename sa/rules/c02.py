"""C02 - type inference is sound: no value is narrowed or re-typed on the device."""
from __future__ import annotations

import ast
import itertools

from .. import dl, lit
from ..core import AnalysisError
from ..flow import CondTrace, conds, lexical_conds
from ..src import Locals, call_name, mod, norm, stmt_key, walk_local

PARSER = "transpile/parser.py"
NUM = ["bool", "int", "float"]
RANK = {"bool": 0, "int": 1, "float": 2}


def geq(a: str, b: str) -> bool:
    """label a can hold every value of label b"""
    if a == b:
        return True
    if a in RANK and b in RANK:
        return RANK[a] >= RANK[b]
    return False


def join(*labels):
    if all(l in RANK for l in labels):
        return max(labels, key=lambda l: RANK[l])
    if len(set(labels)) == 1:
        return labels[0]
    return None  # no common representation


def py_binop(op: str, a: str, b: str):
    """set of labels Python can produce for `a op b` on the label lattice (bool counts as int)"""
    ai = "int" if a == "bool" else a
    bi = "int" if b == "bool" else b
    if a == "String" or b == "String":
        return {"String"} if (a == b == "String" and op == "Add") else None
    if op == "Div":
        return {"float"}
    if op in ("BitAnd", "BitOr", "BitXor") and a == b == "bool":
        return {"bool", "int"}
    if op in ("BitAnd", "BitOr", "BitXor", "LShift", "RShift"):
        return {"int"} if ai == bi == "int" else None
    if op == "Pow":
        return {"int", "float"} if ai == bi == "int" else {"float"}
    return {"float"} if "float" in (ai, bi) else {"int"}


def rule_hoist_order(r, pm):
    """the hoisted declaration is typed from the scope's label table: at every `_make_promotion_decls(names, ctx, ...)` the
    labels of those names have already been published to ctx['var_types'] (by _promote_branch_decls, or by the loop arm's
    own copy loop that precedes the call)"""
    psl = pm.func("_parse_simple_lines")
    n_sites = 0
    for c in walk_local(psl):
        if not (isinstance(c, ast.Call) and call_name(c) == "_make_promotion_decls" and c.args):
            continue
        n_sites += 1
        names = norm(c.args[0])
        stmt = c
        while not isinstance(pm.parent.get(stmt), (ast.If, ast.For, ast.While, ast.FunctionDef, ast.Try, ast.With)) or stmt not in _body_lists(pm.parent.get(stmt)):
            stmt = pm.parent.get(stmt)
            if stmt is None:
                break
        ok = False
        why = "no publication of the labels found before the call"
        if stmt is not None:
            blk = next(b for b in _blocks(pm.parent[stmt]) if stmt in b)
            before = blk[:blk.index(stmt)]
            for st in before:
                if isinstance(st, ast.For) and norm(st.iter) == names and any(isinstance(x, ast.Assign) and isinstance(x.targets[0], ast.Subscript) and norm(x.targets[0].value) == "var_types" and "child_types.get(" in norm(x.value) for x in st.body):
                    ok = True
            # or the names come from _promote_branch_decls, which publishes them itself
            for anc in [stmt] + list(pm.ancestors(stmt)):
                par = pm.parent.get(anc)
                if par is None:
                    break
                for b in _blocks(par):
                    if anc in b:
                        for st in b[:b.index(anc)]:
                            if isinstance(st, ast.Assign) and norm(st.targets[0]) == names and isinstance(st.value, ast.Call) and call_name(st.value) == "_promote_branch_decls":
                                ok = True
                if isinstance(par, ast.FunctionDef):
                    break
        r.check(ok, f"_parse_simple_lines/hoist[{names}]/labels-published-before-declaration", (pm, c), f"`{stmt_key(c)}`: {why}; the hoisted declaration falls back to `int` and a String/float first assigned in the body is then stored in an int")
    if n_sites < 4:
        raise AnalysisError(f"only {n_sites} hoisting call sites found (confirmed: 4)")


def _blocks(node):
    out = []
    for f_ in ("body", "orelse", "finalbody"):
        b = getattr(node, f_, None)
        if isinstance(b, list) and b and isinstance(b[0], ast.stmt):
            out.append(b)
    for h in getattr(node, "handlers", []) or []:
        out.append(h.body)
    return out


def _body_lists(node):
    return [x for b in _blocks(node) for x in b] if node is not None else []


FLOW_SCRIPTS = {
    # every branch runs within two passes of the main loop (x toggles), so CPython observes every assignment
    "scalars": "a = 3\nb = 1.5\nc = True\nd = 'text'\nwhile True:\n    e = a + 1\n    f = b * 2\n    g = a > 2\n    h = d + '!'\n    i = a * b\n",
    "lists": "xs = [1, 2]\nys = [1.5, 2.5]\nwhile True:\n    v = xs[0]\n    w = ys[1]\n    n = len(xs)\n",
    "specialised-by-call-site": "def scale(v, k):\n    t = v\n    return t * k\nwhile True:\n    a = scale(2, 3)\n    b = scale(1.5, 2)\n    c = scale(2, 0.5)\n",
    "specialised-string": "def twice(v):\n    return v + v\nwhile True:\n    a = twice(2)\n    b = twice('ab')\n    c = twice(0.25)\n",
    "hoist-if-else-float": "x = 0\nwhile True:\n    if x > 1:\n        best = 1.5\n    else:\n        best = 2.5\n    y = best\n    x = x + 2\n",
    "hoist-else-only-float": "x = 0\nwhile True:\n    if x > 1:\n        x = 0\n    elif x > 5:\n        x = 1\n    else:\n        level = 0.5\n        name = 'low'\n    x = x + 2\n",
    "hoist-else-only-at-top-level": "x = 0\nif x > 1:\n    x = 5\nelse:\n    ratio = 0.25\n    tag = 'r'\nwhile True:\n    x = x + 1\n",
    "hoist-while-float": "x = 0\nwhile True:\n    x = 0\n    while x < 3:\n        acc = 0.5\n        word = 'w'\n        x = x + 1\n    z = acc\n",
    "hoist-for-float": "while True:\n    for i in range(3):\n        last = i * 0.5\n        label = 'n'\n    z = last\n",
    "hoist-try": "d = 0\nwhile True:\n    try:\n        q = 1.5\n        s = 'ok'\n    except Exception:\n        q = 0.5\n        s = 'bad'\n    z = q\n",
    "function-hoist-int-then-float": "def pick(a, b):\n    if a > b:\n        best = a\n    else:\n        best = b\n    return best\nwhile True:\n    n = pick(1, 2)\n    n = pick(2, 1)\n    m = pick(1.5, 2.5)\n    m = pick(2.5, 1.5)\n",
    "function-hoist-float-then-int": "def pick(a, b):\n    if a > b:\n        best = a\n    else:\n        best = b\n    return best\nwhile True:\n    m = pick(1.5, 2.5)\n    m = pick(2.5, 1.5)\n    n = pick(1, 2)\n    n = pick(2, 1)\n",
    "same-local-name-in-two-helpers": "x = 0\nif x > 1:\n    top = 1\nelse:\n    top = 2\ndef first(a):\n    if a > 0:\n        r = 1\n    else:\n        r = 2\n    return r\ndef second(a):\n    if a > 0:\n        r = 0.5\n    else:\n        r = 1.5\n    return r\nwhile True:\n    p = first(1) + first(0)\n    q = second(1) + second(0)\n",
    "function-else-only": "def grade(v):\n    if v > 10:\n        v = 10\n    else:\n        note = 'small'\n        part = 0.5\n        return part\n    return 1.5\nwhile True:\n    a = grade(3)\n    b = grade(30)\n",
    "nested-calls": "def inner(w):\n    return w * 2\ndef outer(v):\n    return inner(v)\nwhile True:\n    a = outer(1.5)\n    b = outer(2)\n",
    "tuple-types": "while True:\n    a, b = 1, 2.5\n    c, d = 'x', True\n    a, b = a + 1, b * 2\n",
    "same-local-name-branch-then-loop": "def first(a):\n    if a > 0:\n        level = 1\n    else:\n        level = 2\n    return level\ndef ramp(n):\n    for i in range(n):\n        level = i * 0.5\n    return level\ndef climb(n):\n    k = 0\n    while k < n:\n        level = 'up'\n        k = k + 1\n    return level\nwhile True:\n    p = first(1) + first(0)\n    q = ramp(3)\n    s = climb(2)\n",
    "annotated-parameter-other-argument": "def dim(level: int):\n    return level * 2\ndef tag(v: float, n: int):\n    w = v\n    return w + n\nwhile True:\n    a = dim(2)\n    b = dim(0.75)\n    c = tag(1, 2)\n    d = tag(0.5, 2)\n",
    "parameter-widened-in-body": "def grow(p):\n    p = p * 1.5\n    return p\ndef bump(q):\n    q += 0.5\n    return q\ndef tag(s):\n    s = 'a' + s\n    return s\nwhile True:\n    x = grow(3)\n    y = bump(2)\n    w = tag('k')\n",
    "parameter-narrowed-in-body": "def half(v):\n    w = v\n    v = 1\n    return w + v\ndef swap(a, b):\n    a, b = b, a\n    return a\ndef narrow(v):\n    v = 3\n    return v\nwhile True:\n    x = half(0.5)\n    z = swap(1, 2.5)\n    y = narrow(2.5)\n",
    "parameter-reassigned": "def widen(v):\n    w = v\n    w = w + 1\n    return w\nwhile True:\n    a = widen(2)\n    b = widen(2.5)\n",
}


def rule_flow_scripts(r, pm):
    """declared types decided by evaluation: the statement parser is partially evaluated on a corpus of scripts; every C++
    type it declares (globals, locals, hoisted declarations, parameters and return types of each specialised function
    variant) must be the type that holds the values CPython's own execution of the script gives the name (typing oracle:
    sa/pytypes.py, every branch runs within two passes)"""
    from .. import pe, pytypes
    pf = pm.func("parse")

    def decls(nodes, acc):
        for n_ in nodes:
            cn = type(n_).__name__
            if cn == "VarDecl" and not str(n_.name).startswith("__tmp"):
                acc.setdefault(n_.name, set()).add(n_.c_type)
            if cn == "ForRangeLoop":
                acc.setdefault(n_.var_name, set()).add("int")      # emitted as `for (int i = 0; ...)`
            for f_ in ("body", "else_body", "try_body", "branches", "handlers"):
                sub = getattr(n_, f_, None)
                if isinstance(sub, list):
                    decls(sub, acc)
        return acc

    for label, src in FLOW_SCRIPTS.items():
        try:
            _it, out = pe.parse_source(src)
        except dl.Unsupported as e:
            raise AnalysisError(f"parse() left the evaluable subset on typing script `{label}`: {e}")
        if out.kind != "return":
            r.fail(f"types[{label}]/accepted", (pm, pf), f"the typing script `{label}` is rejected with {out.value}")
            continue
        prog = out.value
        oracle = pytypes.trace(src)
        got_mod = decls(list(prog.global_decls) + list(prog.setup_body) + list(prog.loop_body), {})
        for name, tset in sorted(oracle.get("<module>", {"vars": {}})["vars"].items()):
            want = pytypes.var_ctype(tset)
            got = got_mod.get(name)
            r.check(got == {want}, f"types[{label}]/{name}", (pm, pf), f"script `{label}`: `{name}` holds {want} values in Python; the transpiler declares it {sorted(got) if got else 'nowhere'}", sample=f"{label}: {name} -> {want}")
        for key, sc in sorted((k, v) for k, v in oracle.items() if k != "<module>"):
            fname, sig = key
            # the variant serving this call: its parameters are declared with the type that holds everything the parameter
            # holds during the call (the argument, and whatever the body assigns to the parameter later)
            pnames = [n for n, _t in next((f.params for f in prog.functions if f.name == fname), [])]
            want_params = tuple(pytypes.var_ctype(sc["vars"].get(pn, set())) if sc["vars"].get(pn) else "?" for pn in pnames)
            variants = [f for f in prog.functions if f.name == fname and tuple(t for _n, t in f.params) == want_params]
            if len(variants) != 1:
                have = [tuple(t for _n, t in f.params) for f in prog.functions if f.name == fname]
                r.fail(f"types[{label}]/{fname}{list(sig)}/variant", (pm, pf), f"script `{label}`: `{fname}` is called with {list(sig)} and its parameters hold {list(want_params)} values during the call; the transpiler emits variants {have}: an argument would be converted to a narrower parameter")
                continue
            f = variants[0]
            want_ret = pytypes.ctype_of(sc["returns"]) if sc["returns"] else "void"
            r.check(f.return_type == want_ret, f"types[{label}]/{fname}{list(sig)}/return", (pm, pf), f"script `{label}`: `{fname}{list(sig)}` returns {want_ret} values in Python; declared return type {f.return_type}", sample=f"{label}: {fname}{list(sig)} -> {want_ret}")
            got_fn = decls(list(f.body), {})
            params = {n for n, _t in f.params}
            for name, tset in sorted(sc["vars"].items()):
                if name in params:
                    continue
                want = pytypes.var_ctype(tset)
                got = got_fn.get(name)
                r.check(got == {want}, f"types[{label}]/{fname}{list(sig)}/{name}", (pm, pf), f"script `{label}`: in `{fname}{list(sig)}` the local `{name}` holds {want} values in Python; the transpiler declares it {sorted(got) if got else 'nowhere'}", sample=f"{label}: {fname}{list(sig)}.{name} -> {want}")


def run(cx):
    pm = mod(PARSER)
    cx.consulted(pm)
    cx.explanation = (
        "the inference function is evaluated as a decision procedure over the finite lattice of type labels (bool<int<float, String) for every expression form and compared with Python's typing; join functions over all label subsets; label->C++ mapping; declared types (globals, locals, hoisted declarations, parameters, return types per call-site specialisation) and re-declaration are decided on a script corpus parsed by partial evaluation, with CPython under sys.settrace as typing oracle; accessor translations typed by clang. Per-program inference for arbitrary scripts is not decided."
        " Since round 10 whole scripts are also taken through parse() and emit() (partial evaluation), the emitted translation unit is parsed by clang and interpreted by the checker's C evaluator on a scripted board (never compiled to code or run); typed stores (an int variable truncates) make a too narrow temporary, local, parameter or return type visible as a wrong printed value on the c02 corpus scripts."
    )
    it = lambda: dl.Interp(pm)
    inf = pm.func("_infer_expr_type")

    def infer(src: str, var_types: dict):
        node = ast.parse(src, mode="eval").body
        try:
            return it().call(inf, [node, dict(var_types), {}, {}, {}, None])
        except dl.Unsupported as e:
            raise AnalysisError(f"_infer_expr_type left the evaluable subset on `{src}`: {e}")

    # ---- C02-CONST ---------------------------------------------------------------------------
    r = cx.rule("C02-CONST", "literals are typed bool/int/float/String with bool recognised before int", floor=6, exhaustive=True)
    for src, want in (("True", "bool"), ("False", "bool"), ("0", "int"), ("7", "int"), ("1.5", "float"), ("0.0", "float"), ("'hi'", "String"), ("f'a{1}'", "String")):
        out = infer(src, {})
        r.check(out.kind == "return" and out.value == want, f"_infer_expr_type/literal[{want}]", (pm, inf), f"literal {src} is typed {out!r}, expected {want}")
    for lab in NUM + ["String"]:
        out = infer("x", {"x": lab})
        r.check(out.kind == "return" and out.value == lab, f"_infer_expr_type/name[{lab}]", (pm, inf), f"a {lab} variable is typed {out!r}")

    # ---- C02-EXPR ----------------------------------------------------------------------------
    r = cx.rule("C02-EXPR", "for every operator / conditional / builtin form and every combination of operand labels the inferred label can hold every value Python can produce (never narrower), or the form is rejected", floor=140, exhaustive=True)
    OPS = {"Add": "+", "Sub": "-", "Mult": "*", "Div": "/", "FloorDiv": "//", "Mod": "%", "Pow": "**", "BitAnd": "&", "BitOr": "|", "BitXor": "^", "LShift": "<<", "RShift": ">>"}
    for opn, tok in OPS.items():
        for a, b in itertools.product(NUM + ["String"], repeat=2):
            want = py_binop(opn, a, b)
            if want is None:
                continue  # a TypeError in Python: outside the quantifier
            out = infer(f"x {tok} y", {"x": a, "y": b})
            ok = out.kind == "raise" or all(geq(out.value, w) for w in want if w in ("int", "float", "String", "bool") and (w != "int" or "float" not in want or True)) if out.kind == "return" else True
            # for Pow accept int or float results (value dependent): require holding the smaller claim only
            if opn == "Pow" and out.kind == "return":
                ok = out.value in ("int", "float")
            if opn in ("BitAnd", "BitOr", "BitXor") and a == b == "bool" and out.kind == "return":
                ok = out.value in ("bool", "int")
            key = f"binop[{opn}]({'int' if a == 'bool' else a},{'int' if b == 'bool' else b})" if opn == "Div" else f"binop[{opn}]({a},{b})"
            r.check(ok, key, (pm, inf), f"`{a} {tok} {b}` is typed {out!r}; Python yields {sorted(want)}: the value would be narrowed on the device", sample=f"{a} {tok} {b} -> {out.value if out.kind == 'return' else 'rejected'}")
    for a in ("int", "float"):
        for u, tok in (("USub", "-"), ("UAdd", "+")):
            out = infer(f"{tok}x", {"x": a})
            r.check(out.kind == "return" and geq(out.value, a), f"unary[{u}]({a})", (pm, inf), f"`{tok}{a}` is typed {out!r}")
    for a in NUM + ["String"]:
        out = infer("not x", {"x": a})
        r.check(out.kind == "return" and out.value == "bool", f"unary[Not]({a})", (pm, inf), f"`not {a}` is typed {out!r}")
        out = infer("x < y", {"x": a, "y": a})
        r.check(out.kind == "return" and out.value == "bool", f"compare({a})", (pm, inf), f"a comparison is typed {out!r}")
    for a, b in itertools.product(NUM + ["String"], repeat=2):
        out = infer("x if c else y", {"x": a, "y": b, "c": "bool"})
        j = join(a, b)
        if j is None:
            ok = out.kind == "raise"
            r.check(ok, "ifexp(String,numeric)-needs-conversion", (pm, inf), f"`{a} if c else {b}` is typed {out!r} and emitted as a plain C++ ?: with operands of both kinds: there is no common type, the form must be rejected or converted")
        else:
            r.check(out.kind == "raise" or geq(out.value, j), f"ifexp({a},{b})", (pm, inf), f"`{a} if c else {b}` is typed {out!r}; Python yields {j}")
            # the same with a constant environment that claims to know the test variable: that environment is flow-insensitive
            # (a loop or branch may have changed c since), so the other arm can still be taken at run time
            for cval in (0, 1, True, False):
                node_ = ast.parse("x if c else y", mode="eval").body
                try:
                    out_c = it().call(inf, [node_, {"x": a, "y": b, "c": "int"}, {}, {}, {}, {"vars": {"c": cval}}])
                except dl.Unsupported as e:
                    raise AnalysisError(f"_infer_expr_type left the evaluable subset: {e}")
                r.check(out_c.kind == "raise" or geq(out_c.value, j), f"ifexp({a},{b})/test-variable-bound-in-the-constant-environment", (pm, inf), f"`{a} if c else {b}` with c recorded as {cval!r} in the constant environment is typed {out_c!r}; the environment may be stale (c changed in a loop/branch), Python can yield {j}")
        for opn, tok in (("And", "and"), ("Or", "or")):
            out = infer(f"x {tok} y", {"x": a, "y": b})
            j2 = join(a, b)
            if a == b == "bool":
                r.check(out.kind == "return" and out.value == "bool", f"boolop[{opn}](bool,bool)", (pm, inf), f"typed {out!r}")
            elif j2 is not None:
                okb = out.kind == "raise" or geq(out.value, j2)
                r.check(okb, "boolop-value-typed-bool", (pm, inf), f"`{a} {tok} {b}` yields one of its operands in Python ({j2}) but is typed {out!r}: `n = 0 or 5` becomes `bool n = (0 || 5)`")
    for fn_, args, want in (("int", ["float"], "int"), ("float", ["int"], "float"), ("bool", ["int"], "bool"), ("str", ["int"], "String"), ("len", ["String"], "int")):
        out = infer(f"{fn_}(x)", {"x": args[0]})
        r.check(out.kind == "return" and out.value == want, f"builtin[{fn_}]", (pm, inf), f"{fn_}({args[0]}) is typed {out!r}, expected {want}")
    for a in ("int", "float"):
        out = infer("abs(x)", {"x": a})
        r.check(out.kind == "return" and geq(out.value, a), f"builtin[abs]({a})", (pm, inf), f"abs({a}) is typed {out!r}: a float magnitude would be truncated")
        for b in ("int", "float"):
            for fn_ in ("max", "min"):
                out = infer(f"{fn_}(x, y)", {"x": a, "y": b})
                r.check(out.kind == "return" and geq(out.value, join(a, b)), f"builtin[{fn_}]({join(a, b)})", (pm, inf), f"{fn_}({a}, {b}) is typed {out!r}: a float result would be truncated")
    for a in NUM + ["String"]:
        out = infer("[x, x]", {"x": a})
        r.check(out.kind == "return" and out.value == f"list[{a}]", f"list-literal[{a}]", (pm, inf), f"[{a}, {a}] is typed {out!r}")
        out = infer("xs[0]", {"xs": f"list[{a}]"})
        r.check(out.kind == "return" and out.value == a, f"subscript[list[{a}]]", (pm, inf), f"element of list[{a}] is typed {out!r}")

    # ---- C02-JOIN ----------------------------------------------------------------------------
    r = cx.rule("C02-JOIN", "_merge_return_types and _merge_element_types return an upper bound of all their inputs or raise (evaluated over every combination of labels)", floor=60, exhaustive=True)
    mrt = pm.func("_merge_return_types")
    labs = NUM + ["String"]
    for k in range(0, 4):
        for combo in itertools.combinations(labs, k):
            for perm in set(itertools.permutations(combo)):
                for void in (False, True):
                    try:
                        out = it().call(mrt, [list(perm), void])
                    except dl.Unsupported as e:
                        raise AnalysisError(f"_merge_return_types not evaluable: {e}")
                    if void and combo:
                        ok = out.kind == "raise"
                    elif not combo:
                        ok = out.kind == "return" and out.value == "void"
                    else:
                        j = join(*combo)
                        ok = out.kind == "raise" if j is None else (out.kind == "raise" or (out.kind == "return" and geq(out.value, j)))
                    r.check(ok, f"_merge_return_types{sorted(combo)}{'+bare-return' if void else ''}", (pm, mrt), f"_merge_return_types({list(perm)}, has_void={void}) -> {out!r}")
    met = pm.func("_merge_element_types")
    for k in range(0, 4):
        for combo in itertools.product(labs, repeat=k):
            try:
                out = it().call(met, [list(combo)])
            except dl.Unsupported as e:
                raise AnalysisError(f"_merge_element_types not evaluable: {e}")
            if not combo:
                ok = out.kind == "return" and out.value == "int"
            else:
                j = join(*combo)
                # __redu_make_list converts every element with static_cast<T>; String absorbs numbers through String(x)
                if j is None:
                    ok = out.kind == "raise" or out.value == "String"
                else:
                    ok = out.kind == "raise" or (out.kind == "return" and geq(out.value, j))
            r.check(ok, f"_merge_element_types{sorted(set(combo))}", (pm, met), f"_merge_element_types({list(combo)}) -> {out!r}; a list mixing these element types would be declared too narrow")
    for combo in (["list[int]", "list[int]"], ["list[int]", "list[float]"], ["list[int]", "int"]):
        out = it().call(met, [combo])
        ok = (out.kind == "return" and out.value == combo[0]) if len(set(combo)) == 1 else out.kind == "raise"
        r.check(ok, f"_merge_element_types{combo}", (pm, met), f"-> {out!r}")

    # ---- C02-CPP -----------------------------------------------------------------------------
    r = cx.rule("C02-CPP", "_cpp_type maps each label to the C++ type of the same kind and _default_value_for_type yields a literal of that type", floor=8, exhaustive=True)
    cpp = pm.func("_cpp_type")
    dv = pm.func("_default_value_for_type")
    want_cpp = {"int": {"int", "long"}, "float": {"float", "double"}, "bool": {"bool"}, "String": {"String"}, "void": {"void"}}
    want_def = {"int": {"0"}, "long": {"0", "0L"}, "float": {"0.0", "0.0f"}, "double": {"0.0"}, "bool": {"false"}, "String": {'""', "String()", 'String("")'}}
    for lab, ok_set in want_cpp.items():
        out = it().call(cpp, [lab])
        r.check(out.kind == "return" and out.value in ok_set, f"_cpp_type[{lab}]", (pm, cpp), f"_cpp_type({lab!r}) -> {out!r}")
        if out.kind == "return" and lab != "void":
            d = it().call(dv, [out.value])
            r.check(d.kind == "return" and d.value in want_def.get(out.value, set()), f"_default_value_for_type[{out.value}]", (pm, dv), f"default for {out.value} is {d!r}")
    for lab in ("int", "float", "String"):
        out = it().call(cpp, [f"list[{lab}]"])
        inner = it().call(cpp, [lab]).value
        r.check(out.kind == "return" and out.value == f"__redu_list<{inner}>", f"_cpp_type[list[{lab}]]", (pm, cpp), f"-> {out!r}")
        d = it().call(dv, [f"__redu_list<{inner}>"])
        r.check(d.kind == "return" and d.value == f"__redu_list<{inner}>()", f"_default_value_for_type[list[{lab}]]", (pm, dv), f"-> {d!r}")

    # ---- C02-FLOW ----------------------------------------------------------------------------
    r = cx.rule("C02-FLOW", "every C++ type the parser declares - globals, locals, declarations hoisted out of if/elif/else, while, for and try blocks, parameters and return types of each call-site specialisation - holds the values CPython gives the name when it executes the same script (script corpus partially evaluated; CPython under settrace is the typing oracle)", floor=80, exhaustive=True)
    rule_flow_scripts(r, pm)

    # ---- C02-E2E: values that only survive in the right C++ type ---------------------------------
    from .. import e2e
    e2e.rule_traces(cx, "C02-E2E", "c02", (pm, pm.func("parse")), "scripts whose printed values only survive when every temporary, local, hoisted declaration, parameter and return value has the type Python's values need (tuple assignment carrying a float through a temporary, int/float call-site variants in both orders, hoisted names shared between variants and scopes, float accumulators): the emitted sketch is evaluated with C typed stores (an int variable truncates) and must print CPython's values")

    # ---- C02-REDECL --------------------------------------------------------------------------
    r = cx.rule("C02-REDECL", "a scalar that receives values of several labels - re-assigned later, or first assigned in different branches of one if/elif/else - is declared with a type that holds them all, or the script is rejected (scripts for every ordered combination of labels partially evaluated; CPython is the typing oracle)", floor=20, exhaustive=True)
    from .. import pe as _pe, pytypes
    pf = pm.func("parse")
    ha = pm.func("_handle_assignment_ast")
    LITS = {"bool": "True", "int": "3", "float": "1.5", "String": "'s'"}
    CPP = {"bool": "bool", "int": "int", "float": "float", "String": "String"}

    def declared(prog, name):
        acc = set()

        def visit(nodes):
            for n_ in nodes:
                if type(n_).__name__ == "VarDecl" and n_.name == name:
                    acc.add(n_.c_type)
                for f_ in ("body", "else_body", "try_body", "branches", "handlers"):
                    sub = getattr(n_, f_, None)
                    if isinstance(sub, list):
                        visit(sub)
        visit(list(prog.global_decls) + list(prog.setup_body) + list(prog.loop_body))
        return acc

    def decide(label, src, combo, known_key):
        j = join(*combo)
        try:
            _it, out = _pe.parse_source(src)
        except dl.Unsupported as e:
            raise AnalysisError(f"parse() left the evaluable subset on `{label}`: {e}")
        if out.kind != "return":
            r.ok(f"{label}: rejected")
            return
        want = pytypes.var_ctype(pytypes.trace(src, passes=3)["<module>"]["vars"]["y"])
        got = declared(out.value, "y")
        ok = got == {want}
        first_wins = not ok and got == {CPP[combo[0]]} and combo[0] != j
        r.check(ok, known_key if first_wins else f"{label}/declared-type-holds-every-value", (pm, ha), f"`y` receives {' then '.join(combo)} values ({label}); Python's values need {want}; declared {sorted(got)}", sample=f"{label}: {want}")

    for combo in itertools.permutations(NUM, 2):
        src = f"y = {LITS[combo[0]]}\nwhile True:\n    y = {LITS[combo[1]]}\n"
        decide(f"retype[{'-then-'.join(combo)}]", src, combo, "_handle_assignment_ast/scalar-retype-unchecked")
    for combo in itertools.chain(itertools.permutations(NUM, 2), itertools.permutations(NUM, 3), [("String", "String"), ("float", "float")]):
        for with_else in (False, True):
            heads = ["if x > 3:", "elif x > 1:", "elif x > -1:"]
            lines = ["x = 0", "while True:"]
            for i_, lab_ in enumerate(combo):
                head = "else:" if with_else and i_ == len(combo) - 1 else heads[i_]
                lines += [f"    {head}", f"        y = {LITS[lab_]}"]
            lines += ["    x = x + 2" if len(combo) == 2 else "    x = x + 2"]
            src = "\n".join(lines) + "\n"
            # every branch must run for the oracle: three passes (x = 0, 2, 4) reach branch 3, 2, 1
            tr_ = pytypes.trace(src, passes=3)["<module>"]["vars"].get("y", set())
            if len(tr_) != len(set(combo)):
                raise AnalysisError(f"typing oracle did not reach every branch of hoist[{'-'.join(combo)}]")
            decide(f"hoist[{'-then-'.join(combo)}{'+else' if with_else else ''}]", src, combo, "_promote_branch_decls/first-branch-type-wins")

    from .. import pe, cxx, l2
    from . import c09
    em = mod("transpile/emitter.py")
    cx.consulted(em)
    cls, _f = pe.ir_classes()

    # ---- C02-ACCESSOR ------------------------------------------------------------------------
    r = cx.rule("C02-ACCESSOR", "every device accessor call the expression translator accepts (`dev.get_speed()`, `mon.read()`, ...) is given a label whose C++ type holds the C++ type of the translated expression (typed by clang against the sketch that declares the device)", floor=12)
    import re as _re
    tce = pm.func("_to_c_expr")
    tce_emit = pm.funcs.get("_to_c_expr.emit")
    if tce_emit is None:
        raise AnalysisError("_to_c_expr.emit vanished")
    methods = set()
    for n in walk_local(tce_emit):
        if isinstance(n, ast.Compare) and isinstance(n.left, ast.Name) and n.left.id == "attr" and len(n.ops) == 1:
            v = lit.try_ev(n.comparators[0])
            if isinstance(n.ops[0], ast.Eq) and isinstance(v, str):
                methods.add(v)
            elif isinstance(n.ops[0], ast.In) and isinstance(v, (set, frozenset, tuple, list)):
                methods |= {x for x in v if isinstance(x, str)}
    # ... or kept in a table keyed by the accessor name: every accessor-like string constant of the parser is a candidate
    # (whether the translator accepts it is decided by evaluating it below)
    methods |= {n.value for n in ast.walk(pm.tree) if isinstance(n, ast.Constant) and isinstance(n.value, str) and _re.fullmatch(r"(get_|is_|read|measure_)[a-z_]*", n.value)}
    methods -= {"append", "remove"}
    # registry -> device kind (confirmed by reading the declaration handlers of _parse_simple_lines)
    REG = {"led_names": "Led", "buzzer_names": "Buzzer", "dc_motor_names": "DCMotor", "ultrasonic_names": "Ultrasonic", "button_names": "Button",
           "servo_names": "Servo", "potentiometer_names": "Potentiometer", "serial_monitors": "SerialMonitor"}
    regs_read = {lit.try_ev(c.args[0]) for c in walk_local(tce_emit) if isinstance(c, ast.Call) and isinstance(c.func, ast.Attribute) and c.func.attr in ("get", "setdefault") and c.args}
    extra = {x for x in regs_read if isinstance(x, str) and (x.endswith("_names") or x == "serial_monitors")} - set(REG) - {"button_poll_names"}
    if extra:
        raise AnalysisError(f"_to_c_expr reads device registries this rule has no device kind for: {sorted(extra)}")
    accepted = {}
    for reg, dev in sorted(REG.items()):
        for m_ in sorted(methods):
            ctx_ = {reg: {"dev"}, "potentiometer_pins": {"dev": "A0"}}
            try:
                out = dl.Interp(pm, opaque={"ast.parse": ast.parse, "re.fullmatch": _re.fullmatch, "re.sub": _re.sub}).call(tce, [f"dev.{m_}()", {}, ctx_])
            except dl.Unsupported as e:
                raise AnalysisError(f"_to_c_expr left the evaluable subset on `dev.{m_}()`: {e}")
            if out.kind == "return" and isinstance(out.value, str) and out.value:
                lab_ = it().call(inf, [ast.parse(f"dev.{m_}()", mode="eval").body, {}, {}, {}, {}, {reg: {"dev"}}])
                accepted.setdefault(dev, []).append((m_, out.value, lab_))
    if sum(len(v) for v in accepted.values()) < 12:
        raise AnalysisError(f"only {sum(len(v) for v in accepted.values())} accessor translations found (confirmed: 15)")

    def kind_of(cpp_t):
        t = (cpp_t or "").replace("const ", "").replace("&", "").strip()
        if t == "bool":
            return "bool"
        if t in ("int", "long", "unsigned int", "unsigned long", "short", "unsigned char", "char", "uint8_t", "size_t"):
            return "int"
        if t in ("float", "double"):
            return "float"
        if t == "String":
            return "String"
        return None

    for dev, rows in sorted(accepted.items()):
        res = pe.emit_program(setup=[l2.decl_node(dev)], ultrasonic=({"dev"} if dev == "Ultrasonic" else ()))
        if res.raised or not res.text:
            raise AnalysisError(f"emit() raises {res.raised} for a lone {dev} declaration")
        probe = "\nvoid __redu_probe() {\n" + "".join(f"  auto __p{i} = {e};\n" for i, (_m, e, _l) in enumerate(rows)) + "}\n"
        fns = l2.functions_of(res.text + probe, ["__redu_probe"])
        if not fns.get("__redu_probe"):
            raise AnalysisError(f"clang could not type the accessor expressions of {dev}")
        types = {st["name"]: st.get("type") for st in cxx.all_stmts(fns["__redu_probe"][0]["body"]) if st["k"] == "decl"}
        for i, (m_, e, lab_) in enumerate(rows):
            kt = kind_of(types.get(f"__p{i}"))
            if kt is None:
                raise AnalysisError(f"accessor `{e}` has C++ type {types.get(f'__p{i}')!r}: not a type this rule classifies")
            ok = lab_.kind == "return" and ((kt == "String" and lab_.value == "String") or (kt != "String" and lab_.value in RANK and RANK[lab_.value] >= RANK[kt]))
            r.check(ok, f"_infer_expr_type/accessor[{dev}.{m_}]", (pm, inf), f"`v = dev.{m_}()` translates to `{e}` of C++ type {types.get(f'__p{i}')} but is labelled {lab_!r}: the declaration `{it().call(cpp, [lab_.value]).value if lab_.kind == 'return' else '?'} v` cannot hold it", sample=f"{dev}.{m_}() -> {e} : {types.get(f'__p{i}')} / label {lab_.value if lab_.kind == 'return' else lab_!r}")

    # ---- C02-EMIT ----------------------------------------------------------------------------
    r = cx.rule("C02-EMIT", "the emitter writes the types the parser decided: every function overload is emitted (once) with its own parameter and return types, every declaration with its c_type; the list helper converts elements to the element type only", floor=12)
    S = cls["ReturnStmt"]
    fd = cls["FunctionDef"]
    VD = cls["VarDecl"]
    fns_ = [fd(name="scale", params=[("v", "int")], body=[VD(name="out", c_type="int", expr="(v * 2)", global_scope=False), S(expr="out")], return_type="int"),
            fd(name="scale", params=[("v", "float")], body=[VD(name="out", c_type="float", expr="(v * 2)", global_scope=False), S(expr="out")], return_type="float"),
            fd(name="scale", params=[("v", "String")], body=[VD(name="out", c_type="String", expr="v", global_scope=False), S(expr="out")], return_type="String"),
            fd(name="pick", params=[("a", "float"), ("b", "int")], body=[S(expr="a")], return_type="float"),
            fd(name="pick", params=[("a", "int"), ("b", "float")], body=[S(expr="b")], return_type="float")]
    res = pe.emit_program(setup=[cls["ExprStmt"](expr="scale(1)")], functions=fns_)
    if res.raised:
        raise AnalysisError(f"emit() raises {res.raised} for overloaded helpers")
    for f_ in fns_:
        hdr = f"{f_.return_type} {f_.name}(" + ", ".join(f"{t} {n}" for n, t in f_.params) + ")"
        cnt = res.text.count(hdr + " {")
        r.check(cnt == 1, f"emit/overload[{hdr}]-emitted-once", (em, em.func("emit")), f"`{hdr}` is defined {cnt} time(s): a call with these argument types would bind to another overload and convert its arguments")
        # each overload has its own body (its locals were typed for *its* parameter types)
        if cnt == 1 and f_.name == "scale":
            seg = res.text[res.text.index(hdr + " {"):]
            seg = seg[:seg.index("\n}") if "\n}" in seg else len(seg)]
            want_local = f"{f_.params[0][1]} out ="
            r.check(want_local in seg, f"emit/overload[{hdr}]-own-body", (em, em.func("emit")), f"the body emitted under `{hdr}` does not declare `{want_local} ...`: overloads share one rendered body, so a local keeps the type of another overload")
    for ct in ("int", "float", "bool", "String", "__redu_list<float>"):
        for place, kw in (("global", {"global_decls": [cls["VarDecl"](name="v", c_type=ct, expr="{}", global_scope=True)]}), ("setup", {"setup": [cls["VarDecl"](name="v", c_type=ct, expr="{}", global_scope=False)]}),
                          ("function", {"setup": [cls["ExprStmt"](expr="f()")], "functions": [fd(name="f", params=[], body=[cls["VarDecl"](name="v", c_type=ct, expr="{}", global_scope=False)], return_type="void")]})):
            res = pe.emit_program(**kw)
            r.check(not res.raised and f"{ct} v = {{}};" in (res.text or ""), f"emit/VarDecl[{ct}]@{place}", (em, em.func("_emit_block")), f"a {place} declaration with c_type {ct} is not emitted as `{ct} v = ...`")
    hf, _sn, _names = c09.list_helpers(em)
    gen = [f_ for f_ in hf.get("__redu_make_list", []) if any(t == "First" for _n, t in f_.get("params", []))]
    if not gen:
        raise AnalysisError("variadic __redu_make_list<T, First, Rest...> not found")
    for f_ in gen:
        bad = []
        for st in cxx.all_stmts(f_["body"]):
            if st["k"] == "decl" and st.get("type") and any(tp in st["type"] for tp in ("First", "Rest")):
                bad.append(f"{st['type']} {st['name']}")
            for e in cxx.stmt_exprs(st):
                for s_ in cxx.sub_exprs(e):
                    if s_[0] == "cast" and (s_[1] or "") not in ("T", "const T", "T &&", "const T &", "size_t", "unsigned long", "int"):
                        bad.append(f"cast to {s_[1]}")
        r.check(not bad, "make_list/elements-converted-to-T-only", (em.rel, em.const("LIST_HELPER_SNIPPET").lineno), f"list elements pass through {bad}: a later element wider than the first (`[1, 2.5]`) is narrowed before it reaches the list")

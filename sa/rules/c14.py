"""C14 - library deps, #includes and instantiated library classes always agree."""
from __future__ import annotations

import ast
import itertools
import re

from .. import dl, l2, lit, pe
from ..core import AnalysisError
from ..src import Locals, call_name, mod, norm, walk_local

EMITTER = "transpile/emitter.py"
PARSER = "transpile/parser.py"
INIT = "__init__.py"
LIBS = ("Servo", "LiquidCrystal", "LiquidCrystal_I2C")


def run(cx):
    em, pm, im = mod(EMITTER), mod(PARSER), mod(INIT)
    for m in (em, pm, im):
        cx.consulted(m)
    cx.explanation = (
        "for every multiset of library-backed devices (0-2 servos before the loop or at the top of it, every combination and order "
        "of parallel/I2C LCDs up to two, with unrelated devices mixed in) the emitter and _collect_required_libraries are evaluated "
        "by the checker's interpreter on the same fabricated program and the three sets - requested libraries, included headers, "
        "instantiated library classes - are compared, including multiplicities; names library = header stem = class are checked"
    )
    n = rule_agree(cx, "C14-AGREE")
    cx.extra["device_multisets"] = n
    cls, fields = pe.ir_classes()
    crl = im.func("_collect_required_libraries")
    rule_names(cx, em, pm, im, crl, fields)
    rule_declared(cx)
    from . import c07
    c07.rule_decl_siblings(cx, "C14-DECL-SIBLINGS")
    # the last leg of "requested": the library list reaches platformio.ini entry by entry
    from . import c13
    c13.rule_libs(cx, mod("toolchain/pio.py"), "C14-INI-LIBS")


def rule_agree(cx, rid, libs_only=False):
    em, im = mod(EMITTER), mod(INIT)
    cls, fields = pe.ir_classes()
    crl = im.func("_collect_required_libraries")

    def servo(i):
        return cls["ServoDecl"](name=f"s{i}", pin=9 + i)

    def lcd(kind, i):
        if kind == "i2c":
            return cls["LCDDecl"](name=f"l{i}", cols=16, rows=2, interface="i2c", i2c_addr=39 + i)
        if kind == "i2c@0":      # the general-call address 0 is falsy: the interface field, not the address, decides the library
            return cls["LCDDecl"](name=f"l{i}", cols=16, rows=2, interface="i2c", i2c_addr=0)
        return cls["LCDDecl"](name=f"l{i}", cols=16, rows=2, interface="parallel", rs=12, en=11, d4=5, d5=4, d6=3, d7=2, backlight_pin=(10 if i else None))

    lcd_sets = [(), ("parallel",), ("i2c",), ("parallel", "i2c"), ("i2c", "parallel"), ("parallel", "parallel"), ("i2c", "i2c"), ("i2c@0",), ("parallel", "i2c@0")]
    servo_sets = [((), ()), ((0,), ()), ((), (0,)), ((0, 1), ()), ((0,), (1,)), ((), (0, 1))]
    noise = [cls["LedDecl"](name="led", pin=13), cls["LedOn"](name="led")]

    r = cx.rule(rid, ("the libraries requested for platformio.ini are exactly those of the devices the script declares" if libs_only else "a library is requested iff its header is included iff its class is instantiated, each at most once per library") + ", for every combination and placement of servos and LCDs", floor=40, exhaustive=True)
    n = 0
    for lcds in lcd_sets:
        for (s_setup, s_loop) in servo_sets:
            for with_noise in ((False, True) if (lcds, s_setup, s_loop) in ((("parallel",), (0,), ()), ((), (), ())) else (False,)):
                setup = [servo(i) for i in s_setup] + [lcd(k, i) for i, k in enumerate(lcds)] + (noise if with_noise else [])
                for i, k in enumerate(lcds):
                    setup.append(cls["LCDClear"](name=f"l{i}"))
                loop = [servo(i) for i in s_loop] + [cls["ServoWrite"](name=f"s{i}", angle="H_a") for i in s_setup + s_loop]
                label = f"servos setup={list(s_setup)} loop={list(s_loop)}; lcds={list(lcds)}{' +led' if with_noise else ''}"
                variants_ = [(label, setup, loop)]
                if s_loop:
                    # the statement parser prepends the per-pass housekeeping nodes (button poll, LCD animation tick) to the
                    # loop body: a device declared at the top of `while True:` then follows them
                    variants_.append((label + " +button-poll-first", [cls["ButtonDecl"](name="btn", pin=7, on_click="cb")] + setup, [cls["ButtonPoll"](name="btn")] + loop))
                    if lcds:
                        variants_.append((label + " +lcd-tick-first", setup + [cls["LCDAnimate"](name="l0", animation="scroll", row=0, text="H_t_text", speed_ms=200, loop=True)], [cls["LCDTick"](name="l0")] + loop))
                for label, setup, loop in variants_:
                    fns_cb = [cls["FunctionDef"](name="cb", params=[], body=[cls["Sleep"](ms=1)], return_type="void")] if "button-poll" in label else []
                    res = pe.emit_program(setup=setup, loop=loop, functions=fns_cb)
                    if res.raised:
                        raise AnalysisError(f"emit() raises for {label}")
                    text = res.text
                    incs = re.findall(r"^#include <([\w.]+)>", text, re.M)
                    headers = [h for h in incs if h not in ("Arduino.h",)]
                    classes = set()
                    for line in text.split("\n"):
                        m = re.match(r"^(Servo|LiquidCrystal_I2C|LiquidCrystal) \w+", line)
                        if m:
                            classes.add(m.group(1))
                    prog = cls["Program"](setup_body=setup, loop_body=loop, target_port=None, global_decls=[], helpers=set(), functions=fns_cb, ultrasonic_measurements=set())
                    try:
                        out = dl.Interp(im, extra_env=pe.ir_env()).call(crl, [prog])
                    except dl.Unsupported as e:
                        raise AnalysisError(f"_collect_required_libraries left the evaluable subset: {e}")
                    if out.kind != "return" or not isinstance(out.value, list):
                        r.fail("collect/returns-list", (im, crl), f"{label}: _collect_required_libraries -> {out!r}")
                        continue
                    libs = out.value
                    want = set()
                    if s_setup or s_loop:
                        want.add("Servo")
                    if "parallel" in lcds:
                        want.add("LiquidCrystal")
                    if "i2c" in lcds or "i2c@0" in lcds:
                        want.add("LiquidCrystal_I2C")
                    n += 1
                    hdr_libs = [h[:-2] for h in headers if h != "Wire.h"]
                    ok = True
                    if set(libs) != want or len(libs) != len(set(libs)):
                        ok = False
                        r.fail("libs/requested=needed", (im, crl), f"{label}: requested {libs}, devices need {sorted(want)}")
                    if libs_only:
                        if ok:
                            r.ok(label)
                        continue
                    if set(hdr_libs) != want or len(hdr_libs) != len(set(hdr_libs)):
                        ok = False
                        r.fail("includes/included=needed-once", (em, em.func("emit")), f"{label}: included {headers}, devices need {sorted(want)} (each exactly once)")
                    if classes != want:
                        ok = False
                        r.fail("classes/instantiated=needed", (em, em.func("emit")), f"{label}: instantiated {sorted(classes)}, devices need {sorted(want)}")
                    if ("Wire.h" in headers) != ("LiquidCrystal_I2C" in want) or headers.count("Wire.h") > 1:
                        ok = False
                        r.fail("includes/Wire-with-I2C", (em, em.func("emit")), f"{label}: Wire.h included {headers.count('Wire.h')} times")
                    if ok:
                        r.ok(label)
    # a device declared inside a branch or an exception handler still needs its library: the collector walks every node kind
    for holder in ("if-branch", "elif-branch", "else", "try-body", "except-handler", "while-body", "function-body"):
        sv = cls["ServoDecl"](name="s0", pin=9)
        S_ = cls["Sleep"](ms=1)
        CB = cls["ConditionalBranch"]
        fns_ = []
        if holder == "if-branch":
            body_ = [cls["IfStatement"](branches=[CB(condition="H_c", body=[sv])], else_body=[])]
        elif holder == "elif-branch":
            body_ = [cls["IfStatement"](branches=[CB(condition="H_c", body=[S_]), CB(condition="H_d", body=[sv])], else_body=[])]
        elif holder == "else":
            body_ = [cls["IfStatement"](branches=[CB(condition="H_c", body=[S_])], else_body=[sv])]
        elif holder == "try-body":
            body_ = [cls["TryStatement"](try_body=[sv], handlers=[cls["CatchClause"](exception=None, target=None, body=[S_])])]
        elif holder == "except-handler":
            body_ = [cls["TryStatement"](try_body=[S_], handlers=[cls["CatchClause"](exception=None, target=None, body=[sv])])]
        elif holder == "while-body":
            body_ = [cls["WhileLoop"](condition="H_c", body=[sv])]
        else:
            body_ = [S_]
            fns_ = [cls["FunctionDef"](name="f", params=[], body=[sv], return_type="void")]
        prog = cls["Program"](setup_body=body_, loop_body=[], target_port=None, global_decls=[], helpers=set(), functions=fns_, ultrasonic_measurements=set())
        try:
            out = dl.Interp(im, extra_env=pe.ir_env()).call(crl, [prog])
        except dl.Unsupported as e:
            raise AnalysisError(f"_collect_required_libraries left the evaluable subset: {e}")
        r.check(out.kind == "return" and isinstance(out.value, list) and "Servo" in out.value, f"libs/nested-declaration[{holder}]", (im, crl), f"a Servo declared in the {holder} is not seen by _collect_required_libraries -> {out!r}: platformio.ini would lack the library the sketch instantiates")
    return n


def rule_declared(cx, rid="C14-DECLARED"):
    """from the script text: every accepted way of writing a library-backed declaration (pins positional or by keyword, in
    every split; geometry given or not; I2C by i2c_addr) is parsed - by partial evaluation of parse() - to a declaration of
    the interface the script wrote, and the libraries collected for that program are the ones that interface needs"""
    im = mod(INIT)
    crl = im.func("_collect_required_libraries")
    r = cx.rule(rid, "a script that wires an LCD with the six parallel pins (any positional/keyword split) gets a parallel LCDDecl and LiquidCrystal; one that gives i2c_addr gets an I2C LCDDecl and LiquidCrystal_I2C; a Servo declaration in any accepted form gets Servo", floor=20, exhaustive=True)
    pins = [("rs", 12), ("en", 11), ("d4", 5), ("d5", 4), ("d6", 3), ("d7", 2)]
    shapes = []
    for k in range(0, 7):
        args = [str(v) for _n, v in pins[:k]] + [f"{n}={v}" for n, v in pins[k:]]
        for extra in ([], ["cols=20", "rows=4"], ["backlight_pin=10"]):
            shapes.append(("LCD", ", ".join(args + extra), "parallel", "LiquidCrystal"))
    for sh in ("i2c_addr=0x27", "cols=20, rows=4, i2c_addr=0x27", "i2c_addr=39, cols=20", "i2c_addr=0x3F, rows=4"):
        shapes.append(("LCD", sh, "i2c", "LiquidCrystal_I2C"))
    for sh in ("9", "pin=9", "9, min_angle=10, max_angle=170", "pin=9, min_pulse_us=500, max_pulse_us=2500", ""):
        shapes.append(("Servo", sh, None, "Servo"))
    for cname, sh, iface, lib in shapes:
        modname = "Displays" if cname == "LCD" else "Actuators"
        use = "dev.clear()" if cname == "LCD" else "dev.write(90)"
        src = f"from Reduino.{modname} import {cname}\ndev = {cname}({sh})\n{use}\n"
        try:
            _it, out = pe.parse_source(src)
        except dl.Unsupported as e:
            raise AnalysisError(f"parse() left the evaluable subset on `{cname}({sh})`: {e}")
        if out.kind != "return":
            r.ok(f"{cname}({sh}): rejected ({out.value})")
            continue
        prog = out.value
        decls = [n_ for n_ in list(prog.setup_body) + list(prog.loop_body) if type(n_).__name__ == f"{cname}Decl"]
        key = f"{cname}({'positional x' + str(sum(1 for a_ in sh.split(', ') if a_ and '=' not in a_)) if cname == 'LCD' and iface == 'parallel' else sh or 'defaults'})"
        if len(decls) != 1:
            r.fail(f"declared/{key}-one-declaration", (mod(PARSER), mod(PARSER).func("_parse_simple_lines")), f"`dev = {cname}({sh})` yields {len(decls)} {cname}Decl nodes")
            continue
        if iface is not None:
            r.check(decls[0].interface == iface, f"declared/{key}-interface", (mod(PARSER), mod(PARSER).func("_parse_simple_lines")), f"`dev = LCD({sh})` is parsed as an {decls[0].interface!r} display; the script wires a {iface} one: the wrong library is requested, included and instantiated")
        try:
            libs = dl.Interp(im, extra_env=pe.ir_env()).call(crl, [prog])
        except dl.Unsupported as e:
            raise AnalysisError(f"_collect_required_libraries left the evaluable subset: {e}")
        r.check(libs.kind == "return" and list(libs.value) == [lib], f"declared/{key}-library", (im, crl), f"`dev = {cname}({sh})` requests {libs!r}; the declaration needs [{lib!r}]")
    return r


def rule_names(cx, em, pm, im, crl, fields):
    # ---- C14-NAMES ---------------------------------------------------------------------------
    r = cx.rule("C14-NAMES", "an LCD declaration is parallel unless told otherwise (IR default)", floor=1)
    # (which header / library / class a device gets is decided by evaluation in C14-AGREE and C14-DECLARED - wherever the
    # emitter and the collector keep their strings)
    default_iface = [d for f_, _a, d in fields["LCDDecl"] if f_ == "interface"]
    r.check(default_iface and default_iface[0][1] == "parallel", "ast/LCDDecl.interface-default", (mod("transpile/ast.py").rel, 1), f"default interface {default_iface}")
    # (that an LCD is an I2C LCD iff i2c_addr is given is decided on declaration shapes through parse(): C14-DECLARED)

"""C13 - board registry validation is exact; project files."""
from __future__ import annotations

import ast
import itertools
import re

from .. import dl, lit
from ..core import AnalysisError
from ..src import Locals, mod, calls_in, call_name, dotted, kwarg, norm, walk_local

PIO = "toolchain/pio.py"


def _near_miss(name: str):
    out = {name.upper(), name.lower(), name.capitalize(), name + " ", " " + name, name + "_", name[:-1], name + "x",
           name.replace("_", "-"), name.swapcase()}
    out.discard(name)
    out.discard("")
    return out


def rule_validate(cx, m, rid):
    plats = lit.table(m, "SUPPORTED_PLATFORMS")
    if not isinstance(plats, dict) or not plats:
        raise AnalysisError("SUPPORTED_PLATFORMS is not a non-empty dict literal")
    names = list(plats)
    true_inv = {}
    for p, boards in plats.items():
        for b in boards:
            true_inv.setdefault(b, set()).add(p)
    r = cx.rule(rid, "validate_platform_board(p,b) returns iff b is registered for exactly p, else raises ValueError; evaluated over registry x platforms plus near-miss names", floor=1000, exhaustive=True)
    fn = m.func("validate_platform_board")
    all_boards = sorted(set().union(*plats.values()))
    p_dom = set(names)
    for p in names:
        p_dom |= _near_miss(p)
    p_dom |= {"", "espressif32"}
    b_dom = set(all_boards) | {"", "not-a-board", "UNO", "Uno", "nano every"}
    for b in all_boards[:: max(1, len(all_boards) // 40)] + ["uno", "nano_every", "ATmega4809", "uno_wifi_rev2"]:
        if b in true_inv:
            b_dom |= _near_miss(b)
    n_bad = 0
    for p in sorted(p_dom):
        for b in sorted(b_dom):
            it = dl.Interp(m)
            try:
                out = it.call(fn, [p, b])
            except dl.Unsupported as e:
                raise AnalysisError(f"validate_platform_board left the decision-list subset: {e}")
            want_ok = p in plats and b in plats[p]
            if want_ok:
                good = out.kind == "return"
            else:
                good = out.kind == "raise" and out.value == "ValueError"
            if good:
                r.ok(f"({p!r},{b!r})->{out.kind}" if n_bad < 3 and (p in plats) else None)
            else:
                n_bad += 1
                if n_bad <= 5:
                    r.fail(f"validate[{'registered' if want_ok else 'unregistered'}-pair]->{out.kind}:{out.value}", (m, fn), f"validate_platform_board({p!r}, {b!r}) gives {out!r}; expected {'return' if want_ok else 'ValueError'}", detail={"platform": p, "board": b})
                else:
                    r.stat.obligations += 1
                    r.stat.failed += 1
    # decorated spellings (version pins, separators, control characters around a registered name): none is a registered name
    def decorated(name):
        out = set()
        for ch in "@:/#;,.=?*+~!$%&|<>[](){}'\"\\\t\n\r\x00- ":
            out |= {name + ch, name + ch + "5.0.0", ch + name, name + ch + name, name + ch + ch}
        out.discard(name)
        return out

    pairs = []
    for p in names:
        some = sorted(plats[p])[:2] + sorted(plats[p])[-1:]
        for p2 in sorted(decorated(p)):
            pairs += [(p2, b) for b in some]
        for b in some:
            pairs += [(p, b2) for b2 in sorted(decorated(b))]
    for p, b in pairs:
        if p in plats and b in plats[p]:
            continue
        try:
            out = dl.Interp(m).call(fn, [p, b])
        except dl.Unsupported as e:
            raise AnalysisError(f"validate_platform_board left the decision-list subset: {e}")
        if out.kind == "raise" and out.value == "ValueError":
            r.ok(None)
        else:
            n_bad += 1
            if n_bad <= 5:
                r.fail(f"validate[decorated-name]->{out.kind}:{out.value}", (m, fn), f"validate_platform_board({p!r}, {b!r}) gives {out!r}; expected ValueError: the string is not a registered platform/board", detail={"platform": p, "board": b})
            else:
                r.stat.obligations += 1
                r.stat.failed += 1
    # all raises in the function are ValueError
    for n in walk_local(fn):
        if isinstance(n, ast.Raise):
            t = n.exc.func if isinstance(n.exc, ast.Call) else n.exc
            r.check(dotted(t) == "ValueError", "validate/raise-type", (m, n), "validation must raise ValueError")



def run(cx):
    m = mod(PIO)
    cx.consulted(m)
    cx.explanation = (
        "registry tables evaluated as literals and checked exhaustively; validate_platform_board and "
        "_format_lib_section evaluated as decision lists on the syntax tree over the complete registry "
        "plus near-miss names / all short library lists; write_project checked for the shape of its effects"
    )
    # ---- C13-PARTITION -----------------------------------------------------------------------
    r = cx.rule("C13-PARTITION", "every registered board belongs to exactly one platform; inverse map is the comprehension-inverse", floor=100, exhaustive=True)
    plats = lit.table(m, "SUPPORTED_PLATFORMS")
    if not isinstance(plats, dict) or not plats:
        raise AnalysisError("SUPPORTED_PLATFORMS is not a non-empty dict literal")
    for p, boards in plats.items():
        if not isinstance(p, str) or not isinstance(boards, (set, frozenset)):
            raise AnalysisError("SUPPORTED_PLATFORMS shape changed")
        r.check(len(boards) > 0, f"platform[{p}]/non-empty", (m.rel, m.const("SUPPORTED_PLATFORMS").lineno), f"platform {p} has no boards")
    # duplicates inside one literal list (a frozenset hides them) and across platforms
    node = m.const("SUPPORTED_PLATFORMS")
    for k, v in zip(node.keys, node.values):
        pname = lit.ev(k, m)
        src_node = m.consts.get(v.id) if isinstance(v, ast.Name) else v
        listed = _listed_ids(src_node, m)
        r.check(set(listed) == set(plats[pname]), f"platform[{pname}]/registered=listed", (m.rel, src_node.lineno), f"the table lists {len(set(listed))} ids but {len(plats[pname])} are registered; listed and not registered: {sorted(set(listed) - set(plats[pname]))[:6]}, registered and not listed: {sorted(set(plats[pname]) - set(listed))[:6]}")
        seen = set()
        for b in listed:
            r.check(b not in seen, f"board[{b}]/listed-once-in[{pname}]", (m.rel, src_node.lineno), f"board id {b!r} listed twice for platform {pname}", sample=f"{pname}:{b}")
            seen.add(b)
            r.check(bool(b) and b == b.strip() and not re.search(r"\s", b), f"board[{b}]/well-formed", (m.rel, src_node.lineno), f"malformed board id {b!r}", sample=None)
    names = list(plats)
    for a, b in itertools.combinations(names, 2):
        inter = sorted(plats[a] & plats[b])
        for bid in inter:
            r.fail(f"board[{bid}]/single-platform", (m.rel, node.lineno), f"board {bid!r} is registered for both {a} and {b}")
        if not inter:
            r.ok(f"{a}∩{b}=∅")
    # inverse map: evaluate it with the interpreter and compare with the true inverse
    it = dl.Interp(m)
    try:
        inv = it.expr(m.const("BOARD_TO_PLATFORM"), {})
    except dl.Unsupported as e:
        raise AnalysisError(f"BOARD_TO_PLATFORM not evaluable: {e}")
    true_inv = {}
    for p, boards in plats.items():
        for b in boards:
            true_inv.setdefault(b, set()).add(p)
    r.check(set(inv) == set(true_inv), "BOARD_TO_PLATFORM/keys", (m.rel, m.const("BOARD_TO_PLATFORM").lineno), "inverse map does not cover exactly the registered boards")
    bad = [b for b, p in inv.items() if true_inv.get(b) != {p}]
    r.check(not bad, "BOARD_TO_PLATFORM/values", (m.rel, m.const("BOARD_TO_PLATFORM").lineno), f"inverse map disagrees with the registry for {bad[:5]}")
    cx.extra["boards"] = {p: len(b) for p, b in plats.items()}

    rule_validate(cx, m, "C13-VALIDATE")
    from . import c12
    c12.rule_params_unchanged(cx, "C13-TARGET", mod("__init__.py"))
    # the project writer keeps no state between calls: a module-level list that grows would leak one project's libraries
    # into the next
    from . import c10
    c10.rule_global_state(cx, "C13-STATE", [m], floor=1, only={"_format_lib_section", "write_project", "validate_platform_board", "_sanitize_env_name"})

    rule_libs(cx, m, "C13-LIBS")

    rule_write(cx, m, "C13-WRITE")
    rule_project_eval(cx, m, "C13-WRITE-EVAL")
    rule_ini(cx, m, "C13-INI", sorted(set().union(*plats.values())))


class FakePath:
    """recorder standing in for pathlib.Path in the evaluation of write_project: no file system is touched"""
    __dl_native__ = True

    def __init__(self, parts, log):
        self.parts, self.log = tuple(parts), log

    def __truediv__(self, other):
        return FakePath(self.parts + (str(other),), self.log)

    def mkdir(self, *a, **kw):
        self.log.append(("mkdir", "/".join(self.parts), dict(kw)))

    def write_text(self, text, *a, **kw):
        self.log.append(("write_text", "/".join(self.parts), text, kw.get("encoding", a[0] if a else None)))

    def __getattr__(self, name):
        def other(*a, **kw):
            self.log.append((name, "/".join(self.parts)))
        return other


def rule_project_eval(cx, m, rid):
    """write_project evaluated (checker's interpreter, recorder in place of Path) for every registered board"""
    r = cx.rule(rid, "for every registered board write_project performs exactly: mkdir src, src/main.cpp = the given code (utf-8), platformio.ini (utf-8) with one [env:...] section naming exactly the given platform, board and port and the requested libraries once each in order; an unregistered pair writes nothing", floor=300, exhaustive=True)
    plats = lit.table(m, "SUPPORTED_PLATFORMS")
    wp = m.func("write_project")
    code0 = "// sketch\nvoid setup() {}\nvoid loop() {}\n"
    # the source is written verbatim whatever it looks like: no final newline, empty, CR/LF, non-ASCII, trailing blanks
    codes = [code0, "void setup() {}\nvoid loop() {}", "", "x", "int a;\r\n", "// caf\u00e9 \u00b5s\n", "a\n\n\n", "  \t", "line\r"]
    libs = ["Servo", "LiquidCrystal_I2C", "LiquidCrystal"]
    n_bad = 0
    cases = [(p_, b_, libs if i_ % 2 == 0 else None, codes[i_ % len(codes)]) for p_, bs in plats.items() for i_, b_ in enumerate(sorted(bs))]
    cases.append(("atmelavr", "not-a-board", None, code0))
    for plat, board, lb, code in cases:
        log = []
        try:
            out = dl.Interp(m).call(wp, [FakePath(("P",), log), code, "/dev/ttyX"], {"platform": plat, "board": board, "lib_deps": lb})
        except dl.Unsupported as e:
            raise AnalysisError(f"write_project left the evaluable subset: {e}")
        if board == "not-a-board":
            r.check(out.kind == "raise" and not log, "write_project/invalid-pair-writes-nothing", (m, wp), f"write_project(platform={plat!r}, board={board!r}) -> {out!r} after effects {log[:2]}")
            continue
        problems = []
        if out.kind != "return":
            problems.append(f"raises {out.value}")
        writes = {e[1]: e for e in log if e[0] == "write_text"}
        others = [e for e in log if e[0] not in ("write_text", "mkdir")]
        if others or set(writes) != {"P/src/main.cpp", "P/platformio.ini"}:
            problems.append(f"effects {[(e[0], e[1]) for e in log]}")
        else:
            if writes["P/src/main.cpp"][2] != code or writes["P/src/main.cpp"][3] not in ("utf-8", "utf8", "UTF-8"):
                problems.append(f"main.cpp is not the given code in utf-8: given {code!r}, written {writes['P/src/main.cpp'][2]!r}")
            if writes["P/platformio.ini"][3] not in ("utf-8", "utf8", "UTF-8"):
                problems.append("platformio.ini is not written as utf-8")
            ini = writes["P/platformio.ini"][2]
            lines = [l_ for l_ in ini.split("\n")]
            sections = [l_ for l_ in lines if l_.startswith("[")]
            keys = {}
            last = None
            for l_ in lines:
                if l_.startswith("[") or not l_.strip():
                    continue
                if l_[0] in " \t" and last:
                    keys[last].append(l_.strip())
                elif "=" in l_:
                    k_, _, v_ = l_.partition("=")
                    last = k_.strip()
                    keys[last] = [v_.strip()] if v_.strip() else []
            if len(sections) != 1 or not re.fullmatch(r"\[env:[A-Za-z0-9_]+\]", sections[0]):
                problems.append(f"sections {sections}")
            if keys.get("board") != [board]:
                problems.append(f"board = {keys.get('board')} (given {board!r})")
            if keys.get("platform") != [plat]:
                problems.append(f"platform = {keys.get('platform')}")
            if keys.get("upload_port") != ["/dev/ttyX"]:
                problems.append(f"upload_port = {keys.get('upload_port')}")
            if keys.get("framework") != ["arduino"]:
                problems.append(f"framework = {keys.get('framework')}")
            if (keys.get("lib_deps") or []) != (lb or []):
                problems.append(f"lib_deps = {keys.get('lib_deps')} (requested {lb})")
        if problems:
            n_bad += 1
            if n_bad <= 3:
                r.fail(f"write_project/project-for-registered-board[{problems[0].split(' ')[0]}]", (m, wp), f"write_project(platform={plat!r}, board={board!r}, lib_deps={lb}): " + "; ".join(problems)[:300], detail={"platform": plat, "board": board})
            else:
                r.stat.obligations += 1
                r.stat.failed += 1
        else:
            r.ok(None)
    return r


def rule_libs(cx, m, rid):
    r = cx.rule(rid, "_format_lib_section = drop falsy, de-duplicate in first-seen order, one indented continuation line each; '' when nothing remains", floor=100, exhaustive=True)
    fl = m.func("_format_lib_section")
    alphabet = ["Servo", "LiquidCrystal", "", "LiquidCrystal_I2C"]   # the real names: one is a prefix of another
    cases = [None, []]
    for n in (1, 2, 3, 4):
        cases += [list(t) for t in itertools.product(alphabet, repeat=n)]
    # entries that are equal only under some normalisation (case, a version pin, Unicode case folding) are different entries
    near = ["Servo", "servo", "SERVO", "Servo@1.2", "Servo@1.1", "LiquidCrystal", "liquidcrystal", "ſervo"]
    for n in (2, 3):
        cases += [list(t) for t in itertools.product(near, repeat=n) if len(set(t)) > 1][:: (1 if n == 2 else 7)]
    bad_l = 0
    for libs in cases:
        try:
            out = dl.Interp(m).call(fl, [libs])
        except dl.Unsupported as e:
            raise AnalysisError(f"_format_lib_section left the evaluable subset: {e}")
        want = []
        for x in libs or []:
            if x and x not in want:
                want.append(x)
        ok = out.kind == "return" and isinstance(out.value, str) and _ini_values(out.value) == want
        if ok:
            r.ok(None)
        else:
            bad_l += 1
            if bad_l <= 3:
                r.fail("format_lib_section/first-seen-dedup", (m, fl), f"_format_lib_section({libs!r}) -> {out!r}, expected entries {want!r} in that order", detail={"libs": libs})
    r.stat.samples.append(f"{len(cases)} library lists over {alphabet!r} up to length 4")
    return r


def rule_write(cx, m, rid):
    """who-may-call part only: write_project (and the helpers it calls) use no raw file/process primitive.  What it writes,
    where, with which encoding and that an unsupported pair writes nothing is decided by evaluation (…-EVAL rule), whatever
    local variables or helpers the paths and the ini text go through."""
    r = cx.rule(rid, "write_project and the module helpers it calls perform no file/process effect other than pathlib mkdir/write_text (no open(), os.*, shutil, subprocess)", floor=2)
    wp = m.func("write_project")
    params = [a.arg for a in wp.args.args + wp.args.kwonlyargs]
    for need in ("project_dir", "cpp_code", "port", "platform", "board", "lib_deps"):
        if need not in params:
            raise AnalysisError(f"write_project lost parameter {need}")
    scope, todo = [], [wp]
    while todo:
        f_ = todo.pop()
        if f_ in scope:
            continue
        scope.append(f_)
        for c in calls_in(f_):
            if isinstance(c.func, ast.Name) and c.func.id in m.funcs:
                todo.append(m.funcs[c.func.id])
    for f_ in scope:
        others = [c for c in calls_in(f_) if (isinstance(c.func, ast.Attribute) and c.func.attr in ("write_bytes", "unlink", "rmdir", "rename", "replace", "touch", "open", "symlink_to", "chmod")) or call_name(c) in ("open", "os.remove", "os.unlink", "shutil.rmtree", "os.makedirs", "os.mkdir", "subprocess.run", "os.system", "subprocess.Popen", "subprocess.call")]
        for c in others:
            r.fail(f"{f_.name}/extra-effect[{call_name(c) or c.func.attr}]", (m, c), "write_project performs a file/process effect other than its two writes and one mkdir")
        r.ok(f"{f_.name}: no raw file/process primitive")
    return r


def rule_ini(cx, m, rid, all_boards):
    r = cx.rule(rid, "PIO_INI is one [env:{env_name}] section with platform/board/framework=arduino/upload_port keys and the library section last; env names of all registered boards are INI-safe and non-empty", floor=300, exhaustive=True)
    ini = lit.table(m, "PIO_INI")
    if not isinstance(ini, str):
        raise AnalysisError("PIO_INI is not a string literal")
    lines = [l for l in ini.splitlines() if l.strip()]
    r.check(lines and lines[0].strip() == "[env:{env_name}]", "PIO_INI/section-header", (m.rel, m.const("PIO_INI").lineno), "first line must be the single [env:{env_name}] header")
    r.check(sum(1 for l in lines if l.lstrip().startswith("[")) == 1, "PIO_INI/one-section", (m.rel, m.const("PIO_INI").lineno), "more than one section header")
    kv = {}
    for l in lines[1:]:
        if "=" in l:
            k, v = l.split("=", 1)
            r.check(k == k.lstrip(), f"PIO_INI/key-not-indented[{k.strip()}]", (m.rel, m.const("PIO_INI").lineno), "an indented key line would be read as a continuation")
            kv[k.strip()] = v.strip()
    want = {"platform": "{platform}", "board": "{board}", "framework": "arduino", "upload_port": "{port}"}
    for k, v in want.items():
        r.check(kv.get(k) == v, f"PIO_INI/key[{k}]", (m.rel, m.const("PIO_INI").lineno), f"key {k} must be rendered as {v}, found {kv.get(k)!r}")
    r.check(lines and lines[-1].strip() == "{lib_section}", "PIO_INI/lib-section-last", (m.rel, m.const("PIO_INI").lineno), "{lib_section} must be the last line of the template")
    se = m.func("_sanitize_env_name")
    nbad = 0
    for b in all_boards:
        out = dl.Interp(m, opaque={"re.sub": lambda pat, rep, s: re.sub(pat, rep, s)}).call(se, [b])
        ok = out.kind == "return" and isinstance(out.value, str) and re.fullmatch(r"[A-Za-z0-9_\-.]+", out.value or "") is not None
        if ok:
            r.ok(None)
        else:
            nbad += 1
            if nbad < 3:
                r.fail("sanitize_env_name/ini-safe", (m, se), f"_sanitize_env_name({b!r}) -> {out!r}")
    r.stat.samples.append(f"{len(all_boards)} registered board ids sanitised")


def _listed_ids(node, m):
    """ids as listed in the literal (before set construction hides duplicates)."""
    if isinstance(node, ast.Call) and call_name(node) in ("frozenset", "set") and node.args:
        inner = node.args[0]
        v = lit.try_ev(inner, m)
        if isinstance(v, (list, tuple)):
            return list(v)
        if isinstance(v, (set, frozenset)):
            if isinstance(inner, ast.Set):
                return [lit.ev(e, m) for e in inner.elts]
            return list(v)
    v = lit.try_ev(node, m)
    if isinstance(node, ast.Set):
        return [lit.ev(e, m) for e in node.elts]
    if isinstance(v, (list, tuple, set, frozenset)):
        return list(v)
    # a table built from a text block by a helper of the module (`_table("""a b  # note ...""")`): the entries as *listed* are the
    # blank-separated words of the text outside `#` comments (a separating comma is not part of an id)
    if isinstance(node, ast.Call) and isinstance(node.func, ast.Name) and node.func.id in m.funcs and len(node.args) == 1 and not node.keywords:
        text = lit.try_ev(node.args[0], m)
        if isinstance(text, str):
            out = []
            for line in text.splitlines():
                out.extend(w.strip(",") for w in line.partition("#")[0].split() if w.strip(","))
            return out
    raise AnalysisError("board table is not a literal collection")


def _ini_values(text: str):
    """entries of a rendered lib_deps section as an INI reader would see them."""
    if text == "":
        return []
    lines = text.split("\n")
    if not lines[0].startswith("lib_deps") or "=" not in lines[0]:
        return None
    first = lines[0].split("=", 1)[1].strip()
    vals = [first] if first else []
    for l in lines[1:]:
        if not l or not l[0].isspace():
            return None
        vals.append(l.strip())
    return vals


def _path_parts(node):
    """project_dir / "a" / "b"  ->  ("project_dir", ["a","b"]); parenthesised BinOp(Div) chains."""
    parts = []
    while isinstance(node, ast.BinOp) and isinstance(node.op, ast.Div):
        v = lit.try_ev(node.right)
        if not isinstance(v, str):
            return None
        parts.append(v)
        node = node.left
    if isinstance(node, ast.Name):
        rel = []
        for p in reversed(parts):
            rel += p.split("/")
        return node.id, rel
    return None

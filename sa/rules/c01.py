"""C01 - reject-or-preserve: firmware behaves as the Python source says (core language, clause level)."""
from __future__ import annotations

import ast
import re

from .. import cxx, dl, l2, lit, pe
from ..core import AnalysisError
from ..cxx import show, all_calls, all_stmts, stmt_exprs
from ..flow import PathFacts, lexical_conds, split_and
from ..src import Locals, call_name, kwarg, mod, norm, stmt_key, walk_local
from . import c07

PARSER = "transpile/parser.py"
EMITTER = "transpile/emitter.py"
ASTPY = "transpile/ast.py"

PY_OPS = {"Add": "+", "Sub": "-", "Mult": "*", "Div": "/", "FloorDiv": "//", "Mod": "%", "Pow": "**", "BitAnd": "&", "BitOr": "|", "BitXor": "^", "LShift": "<<", "RShift": ">>"}
# C++ operator with the same meaning on the in-range values a script computes; None = no single C operator has Python's meaning
C_OPS = {"Add": "+", "Sub": "-", "Mult": "*", "BitAnd": "&", "BitOr": "|", "BitXor": "^", "LShift": "<<", "RShift": ">>",
         "Div": None, "FloorDiv": None, "Mod": None, "Pow": None}
UNSOUND = {
    "Div": ("binop[Div]-integer-division", "`a / b` is emitted as C++ `/`: for int operands it truncates (7 / 2 -> 3) where Python yields 3.5"),
    "FloorDiv": ("binop[FloorDiv]-truncates-toward-zero", "`a // b` is emitted as C++ `/`: it truncates toward zero (7 // -2 -> -3) where Python floors (-4), and is not integral for floats"),
    "Mod": ("binop[Mod]-sign-of-dividend", "`a % b` is emitted as C++ `%`: the result takes the sign of the dividend (-7 % 3 -> -1) where Python yields 2; undefined for floats"),
    "Pow": ("binop[Pow]-no-c++-operator", "`a ** b` is emitted verbatim; C++ has no ** operator"),
}
CMP = {"Eq": "==", "NotEq": "!=", "Lt": "<", "LtE": "<=", "Gt": ">", "GtE": ">="}


def py_to_tree(n, unsound_ok=True):
    """expected C++ expression tree (sa/cxx mini IR) of a Python expression over int names"""
    if isinstance(n, ast.Name):
        return ("var", n.id)
    if isinstance(n, ast.Constant):
        return ("lit", n.value)
    if isinstance(n, ast.BinOp):
        k = type(n.op).__name__
        tok = C_OPS.get(k) or {"Div": "/", "FloorDiv": "/", "Mod": "%"}.get(k)
        return ("bin", tok, py_to_tree(n.left), py_to_tree(n.right))
    if isinstance(n, ast.UnaryOp):
        tok = {"USub": "-", "UAdd": "+", "Not": "!"}[type(n.op).__name__]
        return ("un", tok, py_to_tree(n.operand))
    if isinstance(n, ast.BoolOp):
        tok = "&&" if isinstance(n.op, ast.And) else "||"
        t = py_to_tree(n.values[0])
        for v in n.values[1:]:
            t = ("bin", tok, t, py_to_tree(v))
        return t
    if isinstance(n, ast.Compare):
        items = [n.left] + list(n.comparators)
        parts = [("bin", CMP[type(o).__name__], py_to_tree(items[i]), py_to_tree(items[i + 1])) for i, o in enumerate(n.ops)]
        t = parts[0]
        for p in parts[1:]:
            t = ("bin", "&&", t, p)
        return t
    if isinstance(n, ast.IfExp):
        return ("cond", py_to_tree(n.test), py_to_tree(n.body), py_to_tree(n.orelse))
    raise ValueError(type(n).__name__)


def strip_casts(e):
    if not isinstance(e, tuple):
        return e
    if e[0] == "cast":
        return strip_casts(e[2])
    return tuple(strip_casts(x) if isinstance(x, tuple) else ([strip_casts(y) for y in x] if isinstance(x, list) else x) for x in e)


SHAPES = [
    "a + b", "a - b", "a * b", "a & b", "a | b", "a ^ b", "a << b", "a >> b", "a / b", "a // b", "a % b",
    "a - (b - c)", "(a - b) - c", "(a - b) * c", "a - b * c", "a * (b + c)", "-(a + b)", "-a * b", "not a", "not (a < b)",
    "a == b", "a != b", "a < b", "a <= b", "a > b", "a >= b", "a < b <= c", "a < b < c < d",
    "a and b", "a or b", "a and b or c", "a and (b or c)", "not a and b",
    "a if b else c", "(a if b else c) + d", "a if b < c else d - a", "a if b else (c if d else a)",
    "a + 1", "2 * a - 3", "(a + b) * (c - d)", "a - -b", "+a",
    # nested prefix operators: `--a` / `++a` are C++ decrements/increments, `!!a` is fine
    "-(-a)", "- -a", "+(+a)", "-(+a)", "+(-a)", "-(-(-a))", "not (not a)", "-(-a) + b", "a - (-(-b))", "a + (+(+b))", "-(-1)", "a * -(-b)", "-(not a)", "not -a",
]


def _unparen(t):
    """strip redundant outer parentheses (only when the first `(` closes at the very end)"""
    t = (t or "").strip()
    while t.startswith("(") and t.endswith(")"):
        depth = 0
        for i, ch in enumerate(t):
            depth += ch == "("
            depth -= ch == ")"
            if depth == 0:
                break
        if i != len(t) - 1:
            break
        t = t[1:-1].strip()
    return t


class ArmEffect(PathFacts):
    """did this path of an emitter arm append at least one line?"""
    CAP = 4096

    def __init__(self, em, loop):
        self.em = em
        self.loop = loop
        self.exits = []

    def fact_names(self, f):
        return set(f[3]) if isinstance(f, tuple) and f[0] == "c" else set()

    def gen(self, stmt, alt):
        for c in walk_local(stmt):
            if isinstance(c, ast.Call) and isinstance(c.func, ast.Attribute) and c.func.attr in ("append", "extend") and norm(c.func.value) == "lines":
                return {"E"}
        return set()

    def cond_facts(self, test, truth):
        out = set()
        for atom, t in [(test, truth)] + [a for a in split_and(test, truth) if a[0] is not test]:
            names = tuple(sorted({n.id for n in ast.walk(atom) if isinstance(n, ast.Name)} - {"node"}))
            out.add(("c", norm(atom), t, names))
        return out

    def visit(self, stmt, state):
        if isinstance(stmt, ast.Continue) and c07._loop_of(self.em, stmt) is self.loop:
            for alt in state:
                self.exits.append((stmt, alt))


SILENT_OK = [
    ("info is None", True, "the display was never declared"),
    ("decl is None", True, "the button was never declared"),
    ("melody_data is None", True, "unknown melody (rejected by the parser)"),
    ("not node.pattern", True, "empty flash pattern: nothing to do"),
    ("node.global_scope", True, "global declarations are emitted in the globals section"),
    ("in_setup", False, "device declarations are configured by emit() pass 1 when met in loop()"),
    ("pin_expr and brightness_var and state_var", False, "LCD without a backlight pin: backlight commands are no-ops on both sides"),
    ("tick_func is None", True, "unknown animation kind"),
]
DECL_BOOKKEEPING = {"ButtonDecl", "ServoDecl", "PotentiometerDecl", "LCDDecl", "LedDecl", "BuzzerDecl", "RGBLedDecl", "UltrasonicDecl", "DCMotorDecl", "LCDTick"}


def _guards_of(body, pred, conds=()):
    """[(statement, tuple of (condition expr, truth))] for every statement in ``body`` satisfying pred; a `continue`/`return`/
    `break` earlier in a block makes the rest of the block conditional on the negation of its guard"""
    out = []
    cur = list(conds)
    for st in body:
        k = st["k"]
        if pred(st):
            out.append((st, tuple(cur)))
        if k == "block":
            out += _guards_of(st["body"], pred, cur)
        elif k == "if":
            out += _guards_of(st["then"], pred, cur + [(st["cond"], True)])
            if st["else"]:
                out += _guards_of(st["else"], pred, cur + [(st["cond"], False)])
            ends = lambda b: bool(b) and b[-1]["k"] in ("continue", "return", "break")
            if ends(st["then"]) and not st["else"]:
                cur = cur + [(st["cond"], False)]
        elif k in ("for", "while"):
            out += _guards_of(st["body"], pred, cur + [(st["cond"], True)])
    return out


def rule_list_helpers(cx, rid):
    """Python list semantics of the generated helpers decided by evaluation (C semantics) of the clang AST of the helper
    templates on every list of up to four elements over two values"""
    from . import c09
    em = mod("transpile/emitter.py")
    fns, _snip, names = c09.list_helpers(em)
    where = (em.rel, em.const("LIST_HELPER_SNIPPET").lineno)
    r = cx.rule(rid, "the list helpers have Python's list semantics on every list of up to four elements: append adds one element at the end and keeps the others; remove deletes the first equal element only; assign copies; indexing maps a negative index to index+len; a comprehension over range() visits range(start, stop, step) in order; len is the element count (helpers evaluated with C semantics on the clang tree)", floor=1000, exhaustive=True)
    for need in ("__redu_list_remove", "__redu_list_append", "__redu_list_get", "__redu_list_from_range", "__redu_len", "__redu_list_assign"):
        if not fns.get(need):
            raise AnalysisError(f"list helper {need} not found")
    n, bad = c09.eval_list_helpers(fns)
    r.ok("helpers evaluated on all lists of <= 4 elements", n=n - len(bad))
    seen = set()
    for key, msg in bad:
        if key in seen:
            r.stat.obligations += 1
            r.stat.failed += 1
            continue
        seen.add(key)
        r.fail(key, where, msg)


from .c03 import Reads as _Reads


class _Ret(Exception):
    pass


class _Scope(dict):
    """locals of one IR function call: reads fall through to the globals, stores go where the name lives"""
    def __init__(self, glob, init):
        super().__init__(init)
        self.glob = glob

    def __missing__(self, k):
        return self.glob[k]

    def __contains__(self, k):
        return dict.__contains__(self, k) or k in self.glob

    def store(self, k, v, declare):
        if declare or dict.__contains__(self, k) or k not in self.glob:
            dict.__setitem__(self, k, v)
        else:
            self.glob[k] = v


def _exec_ir(nodes, env, budget):
    from . import c03
    for n in nodes:
        cn = type(n).__name__
        if cn == "ReturnStmt":
            raise _Ret(eval(str(n.expr), {"__builtins__": {}}, env) if n.expr is not None else None)
        if isinstance(env, _Scope) and cn in ("VarAssign", "VarDecl"):
            env.store(n.name, n.expr if isinstance(n.expr, (int, float)) else eval(str(n.expr), {"__builtins__": {}}, env), cn == "VarDecl")
            continue
        c03._ir_exec([n], env, budget)


def _bind_functions(prog, env):
    """IR functions become callables of the interpretation environment"""
    for f in list(prog.functions):
        def call(*args, _f=f):
            sc = _Scope(env, {n: a for (n, _t), a in zip(_f.params, args)})
            try:
                _exec_ir(list(_f.body), sc, [2000])
            except _Ret as e:
                return e.args[0]
            return None
        env[f.name] = call


TUPLE_SCRIPTS = {
    # label: (prologue, loop body, passes)
    "swap": ("a = 1\nb = 2\n", "a, b = b, a\n", 3),
    "rotate": ("a = 1\nb = 2\nc = 3\n", "a, b, c = b, c, a\n", 4),
    "fibonacci": ("a = 0\nb = 1\n", "a, b = b, a + b\n", 6),
    "dependent": ("count = 5\ndoubled = 0\n", "count, doubled = count + 1, count * 2\n", 3),
    "new-locals-from-globals": ("a = 4\nb = 9\n", "p, q = b, a\na, b = q + 1, p + 1\n", 2),
    "two-reads": ("lo = 0\nhi = 0\n", "lo, hi = pot.read(), pot.read()\n", 2),
    "read-and-old-value": ("a = 7\nb = 0\n", "a, b = pot.read(), a\n", 3),
    "same-expression-twice": ("a = 2\nx = 0\ny = 0\n", "x, y = a + 1, a + 1\na = x + y\n", 2),
    "list-targets": ("a = 1\nb = 2\n", "[a, b] = [b, a + b]\n", 3),
    "helper-reads-a-target": ("a = 1\nb = 0\ndef peek():\n    return a\n", "a, b = 50, peek()\n", 1),
    "helper-reads-a-later-target": ("a = 1\nb = 2\ndef peek():\n    return b\n", "b, a = peek() + 5, peek()\n", 2),
}


def tuple_rhs_once(r, pm):
    """tuple assignment decided by evaluation: the statement parser is partially evaluated on scripts whose main loop holds
    tuple assignments (swap, rotation, dependent right-hand sides, sensor reads written twice); the loop IR is interpreted
    over integers for several passes, reads served by a scripted source, and must leave the values - and perform the number of
    reads - of Python's own execution of the same statements"""
    pf = pm.func("parse")
    for label, (pro, body, passes) in TUPLE_SCRIPTS.items():
        uses_pot = "pot." in body
        src = ("from Reduino.Sensors import Potentiometer\npot = Potentiometer('A0')\n" if uses_pot else "") + pro + "while True:\n" + "".join("    " + l + "\n" for l in body.splitlines())
        try:
            _it, out = pe.parse_source(src)
        except dl.Unsupported as e:
            raise AnalysisError(f"parse() left the evaluable subset on tuple script `{label}`: {e}")
        if out.kind != "return":
            r.fail(f"tuple[{label}]/accepted", (pm, pf), f"the script `{label}` is rejected with {out.value}")
            continue
        prog = out.value
        py_src = _Reads()
        want = {}
        genv = {"__builtins__": {}, "pot": py_src}
        exec(compile(pro, f"<tuple {label}>", "exec"), genv)
        code = compile(body, f"<tuple {label} loop>", "exec")
        for _ in range(passes):
            exec(code, genv)
        want = {k: v for k, v in genv.items() if isinstance(v, (int, float)) and not isinstance(v, bool)}
        ir_src = _Reads()
        env = {"analogRead": ir_src.read, "A0": 0}
        why = ""
        try:
            for d in list(prog.global_decls):
                env[d.name] = d.expr if isinstance(d.expr, (int, float)) else eval(str(d.expr), {"__builtins__": {}}, dict(env))
            _bind_functions(prog, env)
            _exec_ir([n for n in prog.setup_body if type(n).__name__ in ("VarAssign", "VarDecl", "IfStatement", "WhileLoop", "ForRangeLoop")], env, [10000])
            for _ in range(passes):
                _exec_ir(list(prog.loop_body), env, [10000])
            got = {k: env.get(k) for k in want}
        except (NameError, SyntaxError, TypeError, ZeroDivisionError) as e:
            got, why = None, f" ({type(e).__name__}: {e})"
        r.check(got == want, f"tuple[{label}]/values=python", (pm, pf), f"`{body.strip()}` x{passes}: Python leaves {want}; the loop IR leaves {got}{why}: every right-hand side must be bound before any target is written", sample=f"{label}: {want}")
        if uses_pot:
            r.check(ir_src.n == py_src.n, f"tuple[{label}]/one-read-per-right-hand-side", (pm, pf), f"`{body.strip()}` x{passes}: Python reads the sensor {py_src.n} times; the loop IR reads {ir_src.n} times")
    # inside a function body
    src = "def f(x):\n    p, q = x, x + 1\n    p, q = q, p\n    return p - q\nwhile True:\n    u = f(3)\n"
    _it, out = pe.parse_source(src)
    if out.kind != "return":
        r.fail("tuple[function]/accepted", (pm, pf), f"tuple assignment inside a function is rejected with {out.value}")
        return
    fns = [f for f in out.value.functions if f.name == "f"]
    got = None
    if fns:
        env = {n: 3 for n, _t in fns[0].params}
        try:
            _exec_ir(list(fns[0].body), env, [1000])
        except _Ret as e:
            got = e.args[0]
        except (NameError, SyntaxError, TypeError) as e:
            got = f"{type(e).__name__}: {e}"
    r.check(got == 1, "tuple[function]/values=python", (pm, pf), f"`p, q = x, x + 1; p, q = q, p; return p - q` with x=3 returns 1 in Python; the function IR returns {got}")


def run(cx):
    pm, em, am = mod(PARSER), mod(EMITTER), mod(ASTPY)
    for m in (pm, em, am):
        cx.consulted(m)
    cx.explanation = (
        "the expression translator is evaluated on every operator/chain/nesting shape and the emitted C++ is parsed by clang (typed tree = Python tree under an operator oracle; unsound rows are itemised known findings). Everything else is decided by evaluation in the checker's interpreters: every IR class x field variant must change the emitted sketch; if/elif/else emptiness patterns, while/for/try shapes; tuple assignment, global initialisers and flow-dependent values by interpreting the parsed IR against CPython's execution of the same script (scripted sensor, both outcomes); the list helper templates with C semantics and a tracked heap on every list of <= 4 elements; every statement of a corpus is accounted for in four contexts. Value equality of traces for arbitrary programs (16-bit int, float printing) is not decided."
        " Since round 10 whole scripts are also taken through parse() and emit() (partial evaluation), the emitted translation unit is parsed by clang and interpreted by the checker's C evaluator on a scripted board (never compiled to code or run); the device trace of setup() plus several loop() passes must equal the trace CPython leaves on the checker's recording stubs for the corpus scripts tagged c01 (sa/e2e.py); the promotion rewriter is evaluated on declarations nested two levels deep in every child block."
    )
    cls, fields = pe.ir_classes()
    tce = pm.func("_to_c_expr")

    def translate(src, ctx=None):
        try:
            return dl.Interp(pm, opaque={"ast.parse": ast.parse, "re.fullmatch": re.fullmatch, "re.sub": re.sub}).call(tce, [src, {}, ctx if ctx is not None else {}])
        except dl.Unsupported as e:
            raise AnalysisError(f"_to_c_expr left the evaluable subset on `{src}`: {e}")

    # ---- C01-OPS -----------------------------------------------------------------------------
    r = cx.rule("C01-OPS", "every Python operator is emitted as a C++ operator with the same meaning on the values a script computes; literals keep their type (a float literal stays a floating literal); builtins map to their C++ counterparts", floor=40)
    tbl = lit.table(pm, "_BIN")
    for k in sorted(PY_OPS):
        out = translate(f"a {PY_OPS[k]} b")
        txt = out.value if out.kind == "return" else None
        if k not in {getattr(x, "name", "") for x in tbl} and out.kind == "raise":
            r.ok(f"{k}: rejected")
            continue
        want = C_OPS[k]
        if want is None:
            key, msg = UNSOUND[k]
            sound = out.kind == "raise" or (txt is not None and (("static_cast<float>" in txt or "(float)" in txt or "1.0" in txt) if k == "Div" else any(h in txt for h in ("__redu_floordiv", "__redu_mod", "floor(", "pow(", "__redu_pow"))))
            r.check(sound, key, (pm.rel, pm.const("_BIN").lineno), f"{msg} (emitted: `{txt}`)")
        else:
            r.check(_unparen(txt) == f"a {want} b", f"binop[{k}]->{want}", (pm.rel, pm.const("_BIN").lineno), f"`a {PY_OPS[k]} b` is emitted as `{txt}`; expected `(a {want} b)`")
    for k, tok in CMP.items():
        pyt = {"Eq": "==", "NotEq": "!=", "Lt": "<", "LtE": "<=", "Gt": ">", "GtE": ">="}[k]
        out = translate(f"a {pyt} b")
        r.check(out.kind == "return" and _unparen(out.value) == f"a {tok} b", f"compare[{k}]->{tok}", (pm.rel, pm.const("_CMP").lineno), f"`a {pyt} b` -> {out!r}")
    for src, want in (("-a", "(-a)"), ("+a", "(+a)"), ("not a", "(!a)"), ("a and b", "(a && b)"), ("a or b", "(a || b)"), ("a if b else c", "(b ? a : c)")):
        out = translate(src)
        # the operator and operand order are decided here; which parentheses are needed is decided by C01-SHAPE on clang's tree
        r.check(out.kind == "return" and _unparen(out.value) == _unparen(want), f"form[{src}]", (pm, tce), f"`{src}` -> {out!r}, expected `{want}` (outer parentheses optional)")
    # and/or in value context
    from . import c02  # the type side of the same defect is C02's boolop finding
    out = translate("a or b")
    r.check(out.kind == "raise" or "?" in (out.value or ""), "boolop-value-context", (pm, tce), f"`x = a or b` yields an operand in Python (0 or 5 -> 5) but is emitted as `{out.value}` which yields true/false")
    for src, pred, why in (("5", lambda t: t == "5", "int literal"), ("True", lambda t: t == "true", "bool literal"), ("False", lambda t: t == "false", "bool literal"),
                           ("5.0", lambda t: re.fullmatch(r"\d+\.\d*(e[+-]?\d+)?f?|\d+e[+-]?\d+f?", t) is not None, "integral float literal must stay a floating literal"),
                           ("2.5", lambda t: float(t.rstrip("f")) == 2.5 and ("." in t or "e" in t), "float literal"),
                           ("1e-05", lambda t: abs(float(t.rstrip("f")) - 1e-05) < 1e-12 and ("." in t or "e" in t), "small float literal"),
                           ("100.0", lambda t: ("." in t or "e" in t) and float(t.rstrip("f")) == 100.0, "integral float literal must stay a floating literal"),
                           ("1023.0 * a", lambda t: re.search(r"1023\.\d*|1\.023e", t) is not None, "float literal inside an expression")):
        out = translate(src)
        okv = out.kind == "return" and isinstance(out.value, str) and pred(out.value)
        r.check(okv, f"literal[{why}]", (pm, tce), f"`{src}` is emitted as `{out.value if out.kind == 'return' else out}`: {why} (an int literal would make the surrounding arithmetic integer arithmetic)")
    for src, want in (("abs(a)", "abs(a)"), ("max(a, b)", "max(a, b)"), ("min(a, b, c)", "min(min(a, b), c)"), ("int(a)", "static_cast<int>(a)"), ("float(a)", "static_cast<float>(a)"),
                      ("bool(a)", "static_cast<bool>(a)"), ("str(a)", "String(a)"), ("f'x={a}!'", '((String("x=") + String(a)) + "!")'), ("foo(a, b)", "foo(a, b)")):
        out = translate(src)
        r.check(out.kind == "return" and out.value == want, f"builtin[{src}]", (pm, tce), f"`{src}` -> {out!r}, expected `{want}`")

    # ---- C01-SHAPE ---------------------------------------------------------------------------
    r = cx.rule("C01-SHAPE", "the emitted C++ of every nesting/chain shape parses (clang) to the same tree as the Python expression: precedence preserved by parentheses, operands in order, chains expanded pairwise", floor=35)
    funcs = []
    for i, src in enumerate(SHAPES):
        out = translate(src)
        if out.kind != "return":
            r.fail(f"shape[{src}]/translates", (pm, tce), f"`{src}` -> {out!r}")
            continue
        funcs.append((i, src, out.value))
    tu = "#include <Arduino.h>\n" + "\n".join(f"long shape_{i}(long a, long b, long c, long d) {{ return {txt}; }}" for i, _s, txt in funcs)
    errs = cxx.typecheck(tu)
    if errs:
        # a shape whose translation is not C++ at all (`--1`, `++(a)` on an rvalue) is reported for that shape; the others go on
        bad_ids = set()
        for e_ in errs:
            m_ = re.search(r"shape_(\d+)\(", e_)
            if not m_:
                raise AnalysisError("shape translation unit does not compile: " + e_)
            bad_ids.add(int(m_.group(1)))
        for i, src, txt in funcs:
            if i in bad_ids:
                r.fail(f"shape[{src}]", (pm, tce), f"`{src}` is emitted as `{txt}`, which is not a C++ expression with Python's meaning: " + next(e_ for e_ in errs if f"shape_{i}(" in e_).split("   [")[0])
        funcs = [f_ for f_ in funcs if f_[0] not in bad_ids]
        tu = "#include <Arduino.h>\n" + "\n".join(f"long shape_{i}(long a, long b, long c, long d) {{ return {txt}; }}" for i, _s, txt in funcs)
        errs2 = cxx.typecheck(tu)
        if errs2:
            raise AnalysisError("shape translation unit does not compile: " + errs2[0])
    trees = cxx.ast_functions(tu, [f"shape_{i}" for i, _s, _t in funcs])
    for i, src, txt in funcs:
        body = trees[f"shape_{i}"][0]["body"]
        got = strip_casts(body[0]["e"]) if body and body[0]["k"] == "return" else None
        want = py_to_tree(ast.parse(src, mode="eval").body)
        r.check(got == want, f"shape[{src}]", (pm, tce), f"`{src}` is emitted as `{txt}` which C++ parses as {show(got) if got else '?'}; Python's structure is {show(want)}" + (" (C++ reads `--`/`++` as a decrement/increment of the variable, not as two signs)" if ("--" in txt or "++" in txt) else ""), sample=f"{src} -> {txt}")

    eb = em.func("_emit_block")
    # ---- C01-CHILD ---------------------------------------------------------------------------
    r = cx.rule("C01-CHILD", "control-flow arms emit every child block exactly once, in declaration order, with one header per branch/handler; the promotion rewriter rebuilds every child block", floor=12)
    S = cls["Sleep"]
    B = cls["ConditionalBranch"]
    def if_chain(st):
        out = []
        while st is not None and st["k"] == "if":
            out.append((show(st["cond"]), [show(c) for c in all_calls(st["then"])]))
            els = st["else"]
            if els and len(els) == 1 and els[0]["k"] == "if":
                st = els[0]
            elif els is None:
                st = None
            else:
                out.append(("else", [show(c) for c in all_calls(els or [])]))
                st = None
        return out

    # every emptiness pattern of a three-branch chain, with and without else: an empty branch keeps its header (dropping
    # it lets a later branch or the else fire for its values)
    import itertools as _it
    for mask in _it.product((False, True), repeat=3):
        for with_else in (False, True):
            brs = [B(condition=f"H_{c_}", body=([] if e_ else [S(ms=i_ + 1)])) for i_, (c_, e_) in enumerate(zip("abc", mask))]
            prog_if = cls["IfStatement"](branches=brs, else_body=[S(ms=4)] if with_else else [])
            res = pe.emit_program(setup=[prog_if, S(ms=9)], loop=[])
            body = l2.functions_of(res.text, ["setup"])["setup"][0]["body"]
            chain = if_chain(body[0]) if body and body[0]["k"] == "if" else None
            want = [(f"H_{c_}", [] if e_ else [f"delay({i_ + 1})"]) for i_, (c_, e_) in enumerate(zip("abc", mask))] + ([("else", ["delay(4)"])] if with_else else [])
            tag = "".join("e" if e_ else "s" for e_ in mask) + ("+else" if with_else else "")
            r.check(chain == want, f"IfStatement/one-header-per-branch-in-order[{tag}]", (em, eb), f"if/elif/elif{'/else' if with_else else ''} with empty branches {tag} is emitted as {chain}; expected {want} (dropping an empty elif lets later branches fire for its values)")
            r.check(len(body) == 2 and show(body[1]["e"]) == "delay(9)", f"IfStatement/following-statement-after-the-chain[{tag}]", (em, eb), "statement after the if-chain misplaced")
    res = pe.emit_program(setup=[cls["IfStatement"](branches=[B(condition="H_a", body=[S(ms=1)])], else_body=[])], loop=[])
    body = l2.functions_of(res.text, ["setup"])["setup"][0]["body"]
    r.check(len(body) == 1 and body[0]["k"] == "if" and body[0]["else"] is None, "IfStatement/no-else-when-absent", (em, eb), "an if without else must not get an else block")
    res = pe.emit_program(setup=[cls["WhileLoop"](condition="H_a", body=[S(ms=1), cls["BreakStmt"]()]), cls["ForRangeLoop"](var_name="i", count="H_n", body=[S(ms="i")])], loop=[])
    body = l2.functions_of(res.text, ["setup"])["setup"][0]["body"]
    okw = len(body) == 2 and body[0]["k"] == "while" and show(body[0]["cond"]) == "H_a" and [s["k"] for s in body[0]["body"]] == ["expr", "break"]
    r.check(okw, "WhileLoop/header-and-body", (em, eb), "while loop shape changed")
    f = body[1] if len(body) > 1 else None
    okf = f is not None and f["k"] == "for" and f["init"] and f["init"][0]["name"] == "i" and f["init"][0]["init"] == ("lit", 0) and show(f["cond"]) == "(i < H_n)" and show(f["inc"]) in ("++i", "i++", "i += 1") and [show(c) for c in all_calls(f["body"])] == ["delay(i)"]
    r.check(bool(okf), "ForRangeLoop/range(n)=0..n-1-step-1", (em, eb), f"for-range header: init {f['init'] if f else '?'}, cond {show(f['cond']) if f else '?'}, inc {show(f['inc']) if f else '?'}")
    tr = cls["TryStatement"](try_body=[S(ms=1)], handlers=[cls["CatchClause"](exception="ValueError", target="e", body=[S(ms=2)]), cls["CatchClause"](exception=None, target=None, body=[S(ms=3)])])
    res = pe.emit_program(setup=[tr], loop=[])
    delays = re.findall(r"delay\((\d)\)", res.text)
    r.check(delays == ["1", "2", "3"] and res.text.count("catch (") == 2 and res.text.count("try {") == 1, "TryStatement/body-then-handlers-in-order", (em, eb), f"try/except emitted as delays {delays}")
    # the promotion rewriter, decided by evaluation: a declaration of a promoted name nested in every child block of every
    # container - two levels deep - comes back as an assignment, nothing else of the tree changes (every other field of every
    # node is carried over, whatever fields the class has)
    rw = pm.func("_rewrite_nodes")

    def _decl():
        return cls["VarDecl"](name="p", c_type="int", expr="1")

    def _containers(inner):
        """one instance of each container class with `inner` in each of its child blocks: (label, node)"""
        out = []
        out.append(("IfStatement.branches", cls["IfStatement"](branches=[cls["ConditionalBranch"](condition="H_a", body=[S(ms=1)]), cls["ConditionalBranch"](condition="H_b", body=list(inner))], else_body=[S(ms=2)])))
        out.append(("IfStatement.else_body", cls["IfStatement"](branches=[cls["ConditionalBranch"](condition="H_a", body=[S(ms=1)])], else_body=list(inner))))
        out.append(("WhileLoop.body", cls["WhileLoop"](condition="H_c", body=list(inner))))
        out.append(("ForRangeLoop.body", cls["ForRangeLoop"](var_name="k", count="H_n", body=list(inner))))
        out.append(("TryStatement.try_body", cls["TryStatement"](try_body=list(inner), handlers=[cls["CatchClause"](exception="ValueError", target="e", body=[S(ms=3)])])))
        out.append(("TryStatement.handlers", cls["TryStatement"](try_body=[S(ms=4)], handlers=[cls["CatchClause"](exception=None, target=None, body=[S(ms=5)]), cls["CatchClause"](exception="ValueError", target="e", body=list(inner))])))
        return out

    def _dump(n_):
        if isinstance(n_, list):
            return [_dump(x_) for x_ in n_]
        if hasattr(n_, "__dict__") and type(n_).__name__ in cls:
            return (type(n_).__name__, tuple(sorted((k_, repr(_dump(v_))) for k_, v_ in vars(n_).items() if not k_.startswith("__dl_"))))
        return n_

    def _expect(n_):
        """the same tree with VarDecl(p) replaced by VarAssign(p)"""
        if isinstance(n_, list):
            return [_expect(x_) for x_ in n_]
        if type(n_).__name__ == "VarDecl" and n_.name == "p":
            return cls["VarAssign"](name="p", expr=n_.expr)
        if hasattr(n_, "__dict__") and type(n_).__name__ in cls:
            return type(n_)(**{k_: _expect(v_) for k_, v_ in vars(n_).items() if not k_.startswith("__dl_")})
        return n_

    for lab1, outer in _containers([S(ms=6), _decl(), cls["VarDecl"](name="q", c_type="int", expr="2")]):
        trees = [(lab1, outer)] + [(f"{lab2}>{lab1}", o2) for lab2, o2 in _containers([outer])]
        for lab, tree in trees:
            try:
                out_ = dl.Interp(pm, extra_env=pe.ir_env()).call(rw, [[tree], {"p"}])
            except dl.Unsupported as e:
                raise AnalysisError(f"_rewrite_nodes left the evaluable subset: {e}")
            want_ = _dump([_expect(tree)])
            got_ = _dump(list(out_.value)) if out_.kind == "return" and isinstance(out_.value, list) else repr(out_)
            r.check(got_ == want_, f"_rewrite_nodes/{lab1}-rebuilt", (pm, rw), f"_rewrite_nodes on a promoted declaration inside {lab}: the tree that comes back is not the input with `int p = 1` turned into `p = 1` (a declaration left in place redeclares the variable in an inner scope; a field not carried over changes the statement)", sample=f"{lab}: rewritten")
    # per-iteration effect of loops over child collections inside arms
    for n in walk_local(eb):
        if isinstance(n, ast.For) and any(t in norm(n.iter) for t in ("node.branches", "node.handlers")):
            an = ArmEffect(em, n)
            out = an.block(n.body, frozenset({frozenset()}))
            ends = list(out.fall or []) + list(out.cont or [])
            r.check(bool(ends) and all("E" in alt for alt in ends), f"_emit_block/for[{norm(n.iter)}]-emits-every-iteration", (em, n), f"an iteration over {norm(n.iter)} can finish without emitting its block header: that branch/handler would vanish from the firmware")

    # ---- C01-ARM-EMITS -----------------------------------------------------------------------
    # decided by evaluation: every IR action class, in every field-type variant (each Union alternative, both booleans, the
    # 0 boundary, each LCD wiring), is emitted after its declaration and the sketch must differ from the sketch without the
    # statement - unless the statement is one of the documented no-ops
    r = cx.rule("C01-ARM-EMITS", "every statement node, in every field-type variant and LCD wiring, changes the emitted sketch (it cannot vanish from the firmware), except the documented no-ops: an empty flash pattern, message() without texts, backlight/brightness commands on a display without a backlight pin", floor=300, exhaustive=True)
    from . import c06

    def documented_noop(label, node):
        cn = type(node).__name__
        wiring = label[label.index("[") + 1:label.index("]")] if "[" in label else ""
        if cn == "LedFlashPattern" and not list(node.pattern):
            return "empty flash pattern: nothing to do"
        if cn == "LCDMessage" and node.top is None and node.bottom is None:
            return "message() without top and bottom text writes nothing on the host either"
        if cn == "LCDBacklight" and wiring == "parallel":
            return "LCD without a backlight pin: backlight commands are no-ops on both sides"
        if cn == "LCDBrightness" and wiring in ("parallel", "i2c"):
            return "no PWM backlight pin: brightness commands are no-ops on both sides"
        return None

    n_classes = set()
    emitted_classes = set()
    for label, setup_, loop_, _kw in c06.programs_for_schema("quick"):
        seq = loop_ if loop_ else setup_
        if not seq:
            continue
        node = seq[-1]
        cn = type(node).__name__
        if cn.endswith("Decl") and cn != "VarDecl":
            # declarations: some variant must leave a trace in the sketch (which variants configure what is C05's subject)
            full = pe.emit_program(setup=setup_, loop=loop_)
            base = pe.emit_program(setup=setup_[:-1], loop=[]) if not loop_ else pe.emit_program(setup=setup_, loop=loop_[:-1])
            if not full.raised and (base.raised or full.text != base.text):
                emitted_classes.add(cn)
            continue
        full = pe.emit_program(setup=setup_, loop=loop_)
        if full.raised:
            continue                       # refusals are C07's subject
        base = pe.emit_program(setup=setup_[:-1], loop=[]) if not loop_ else pe.emit_program(setup=setup_, loop=loop_[:-1])
        n_classes.add(cn)
        if base.raised or full.text != base.text:
            emitted_classes.add(cn)
            r.ok(cn)
            continue
        why = documented_noop(label, node)
        r.check(why is not None, f"arm[{cn}]/silent[{label[len(cn):][:80]}]", (em, eb), f"`{label}` leaves the sketch unchanged: the statement would vanish from the firmware", sample=f"{cn}: silent only when {why}")
    if len(n_classes) < 40:
        raise AnalysisError(f"only {len(n_classes)} statement classes were emitted")

    # ---- C01-IR-EXH --------------------------------------------------------------------------
    # by evaluation: every IR class of ast.py (what the parser can construct) leaves a trace in the sketch in at least one
    # variant - however the emitter dispatches on node types (isinstance chain, table, ...)
    r = cx.rule("C01-IR-EXH", "every IR class the parser can construct is consumed by the emitter: emitted after its declaration, at least one variant of the node changes the sketch (containers are consumed by emit() or their parent arm): a statement cannot be built and then dropped", floor=55, exhaustive=True)
    built = {call_name(c) for c in ast.walk(pm.tree) if isinstance(c, ast.Call) and call_name(c) in am.classes} | {c for c in am.classes if c in cls}
    containers = {"Program": "emit()", "ConditionalBranch": "IfStatement arm", "CatchClause": "TryStatement arm", "FunctionDef": "emit()"}
    control = {"IfStatement", "WhileLoop", "ForRangeLoop", "TryStatement", "BreakStmt", "ReturnStmt"}      # decided by C01-CHILD / C07-EMIT on extracted sketches
    for c in sorted(built):
        if c in containers:
            r.ok(f"{c}: container consumed by {containers[c]}")
            continue
        if c in control and c not in emitted_classes:
            r.ok(f"{c}: control flow, emitted shape decided by C01-CHILD")
            continue
        r.check(c in emitted_classes, f"ir[{c}]/has-emitter-arm", (em, eb), f"the parser builds {c} nodes but no variant of the node changes the emitted sketch: the statement is silently dropped")
    cx.extra["ir_classes_built"] = len(built)
    cx.extra["ir_classes_emitted"] = len(emitted_classes)

    # ---- C01-ORDER ---------------------------------------------------------------------------
    r = cx.rule("C01-ORDER", "statement and line lists only grow at the end (append/extend); node lists are walked forwards", floor=20)
    LISTS = {"body", "setup_body", "loop_body", "lines", "setup_lines", "loop_lines", "globals_", "parts", "nodes", "function_sections", "block_lines"}
    for m in (pm, em):
        for q, fn in m.funcs.items():
            for n in walk_local(fn, include_self=False):
                if isinstance(n, ast.Call) and isinstance(n.func, ast.Attribute) and isinstance(n.func.value, ast.Name) and n.func.value.id in LISTS:
                    okm = n.func.attr in ("append", "extend", "index", "count", "copy")
                    r.check(okm, f"{q}/{n.func.value.id}.{n.func.attr}", (m, n), f"`{stmt_key(n)}`: emitted statements must keep source order", sample=None)
                if isinstance(n, ast.For) and isinstance(n.iter, ast.Call) and call_name(n.iter) in ("reversed", "sorted") and n.iter.args and norm(n.iter.args[0]) in LISTS | {"node.branches", "node.handlers", "snippet", "lines"}:
                    r.fail(f"{q}/for-{call_name(n.iter)}[{norm(n.iter.args[0])}]", (m, n), "statements are visited out of source order")

    # ---- C01-SWAP ----------------------------------------------------------------------------
    r = cx.rule("C01-SWAP", "tuple assignment is two-phase: scripts with swaps, rotations, dependent right-hand sides and repeated sensor reads in the main loop and in a function are partially evaluated and their IR interpreted over integers; values and number of reads equal Python's", floor=9, exhaustive=True)
    tuple_rhs_once(r, pm)

    # ---- C01-LIST ----------------------------------------------------------------------------
    rule_list_helpers(cx, "C01-LIST")

    # ---- C01-FOLD (shared with C03): a value folded at transpile time is the value Python computes at that point ------
    from . import c03
    c03.rule_flow_scripts(cx, "C01")
    c03.rule_global_init(cx, "C01-GLOBAL-INIT")

    # ---- C01-DISPATCH (shared with C07) ------------------------------------------------------
    c07.rule_account(cx, "C01")

    # ---- C01-E2E: whole scripts, firmware trace = CPython trace ------------------------------------
    from .. import e2e
    e2e.rule_traces(cx, "C01-E2E", "c01", (pm, pm.func("parse")), "whole scripts (control flow with side-effecting conditions and bounds, short-circuit, break, early return, recursion, scoping, builtins, f-strings, tuple assignment, lists, prologue/loop phases): the script goes through parse() and emit() (partial evaluation), the emitted translation unit is parsed by clang and evaluated with C semantics on a scripted board for setup() and several loop() passes; the serial values, delays and pin writes must equal what CPython's execution of the same script leaves on recording stubs, for two sensor schedules (or the script is refused)")

"""C01 - reject-or-preserve: firmware behaves as the Python source says (core language, clause level)."""
from __future__ import annotations

import ast
import re

from .. import cxx, dl, l2, lit, pe
from ..core import AnalysisError
from ..cxx import show, all_calls, all_stmts, stmt_exprs
from ..flow import PathFacts, lexical_conds, split_and
from ..src import Locals, call_name, kwarg, mod, norm, stmt_key, walk_local
from . import c07

PARSER = "transpile/parser.py"
EMITTER = "transpile/emitter.py"
ASTPY = "transpile/ast.py"

PY_OPS = {"Add": "+", "Sub": "-", "Mult": "*", "Div": "/", "FloorDiv": "//", "Mod": "%", "Pow": "**", "BitAnd": "&", "BitOr": "|", "BitXor": "^", "LShift": "<<", "RShift": ">>"}
# C++ operator with the same meaning on the in-range values a script computes; None = no single C operator has Python's meaning
C_OPS = {"Add": "+", "Sub": "-", "Mult": "*", "BitAnd": "&", "BitOr": "|", "BitXor": "^", "LShift": "<<", "RShift": ">>",
         "Div": None, "FloorDiv": None, "Mod": None, "Pow": None}
UNSOUND = {
    "Div": ("binop[Div]-integer-division", "`a / b` is emitted as C++ `/`: for int operands it truncates (7 / 2 -> 3) where Python yields 3.5"),
    "FloorDiv": ("binop[FloorDiv]-truncates-toward-zero", "`a // b` is emitted as C++ `/`: it truncates toward zero (7 // -2 -> -3) where Python floors (-4), and is not integral for floats"),
    "Mod": ("binop[Mod]-sign-of-dividend", "`a % b` is emitted as C++ `%`: the result takes the sign of the dividend (-7 % 3 -> -1) where Python yields 2; undefined for floats"),
    "Pow": ("binop[Pow]-no-c++-operator", "`a ** b` is emitted verbatim; C++ has no ** operator"),
}
CMP = {"Eq": "==", "NotEq": "!=", "Lt": "<", "LtE": "<=", "Gt": ">", "GtE": ">="}


def py_to_tree(n, unsound_ok=True):
    """expected C++ expression tree (sa/cxx mini IR) of a Python expression over int names"""
    if isinstance(n, ast.Name):
        return ("var", n.id)
    if isinstance(n, ast.Constant):
        return ("lit", n.value)
    if isinstance(n, ast.BinOp):
        k = type(n.op).__name__
        tok = C_OPS.get(k) or {"Div": "/", "FloorDiv": "/", "Mod": "%"}.get(k)
        return ("bin", tok, py_to_tree(n.left), py_to_tree(n.right))
    if isinstance(n, ast.UnaryOp):
        tok = {"USub": "-", "UAdd": "+", "Not": "!"}[type(n.op).__name__]
        return ("un", tok, py_to_tree(n.operand))
    if isinstance(n, ast.BoolOp):
        tok = "&&" if isinstance(n.op, ast.And) else "||"
        t = py_to_tree(n.values[0])
        for v in n.values[1:]:
            t = ("bin", tok, t, py_to_tree(v))
        return t
    if isinstance(n, ast.Compare):
        items = [n.left] + list(n.comparators)
        parts = [("bin", CMP[type(o).__name__], py_to_tree(items[i]), py_to_tree(items[i + 1])) for i, o in enumerate(n.ops)]
        t = parts[0]
        for p in parts[1:]:
            t = ("bin", "&&", t, p)
        return t
    if isinstance(n, ast.IfExp):
        return ("cond", py_to_tree(n.test), py_to_tree(n.body), py_to_tree(n.orelse))
    raise ValueError(type(n).__name__)


def strip_casts(e):
    if not isinstance(e, tuple):
        return e
    if e[0] == "cast":
        return strip_casts(e[2])
    return tuple(strip_casts(x) if isinstance(x, tuple) else ([strip_casts(y) for y in x] if isinstance(x, list) else x) for x in e)


SHAPES = [
    "a + b", "a - b", "a * b", "a & b", "a | b", "a ^ b", "a << b", "a >> b", "a / b", "a // b", "a % b",
    "a - (b - c)", "(a - b) - c", "(a - b) * c", "a - b * c", "a * (b + c)", "-(a + b)", "-a * b", "not a", "not (a < b)",
    "a == b", "a != b", "a < b", "a <= b", "a > b", "a >= b", "a < b <= c", "a < b < c < d",
    "a and b", "a or b", "a and b or c", "a and (b or c)", "not a and b",
    "a if b else c", "(a if b else c) + d", "a if b < c else d - a", "a if b else (c if d else a)",
    "a + 1", "2 * a - 3", "(a + b) * (c - d)", "a - -b", "+a",
    # nested prefix operators: `--a` / `++a` are C++ decrements/increments, `!!a` is fine
    "-(-a)", "- -a", "+(+a)", "-(+a)", "+(-a)", "-(-(-a))", "not (not a)", "-(-a) + b", "a - (-(-b))", "a + (+(+b))", "-(-1)", "a * -(-b)", "-(not a)", "not -a",
]


def _unparen(t):
    """strip redundant outer parentheses (only when the first `(` closes at the very end)"""
    t = (t or "").strip()
    while t.startswith("(") and t.endswith(")"):
        depth = 0
        for i, ch in enumerate(t):
            depth += ch == "("
            depth -= ch == ")"
            if depth == 0:
                break
        if i != len(t) - 1:
            break
        t = t[1:-1].strip()
    return t


class ArmEffect(PathFacts):
    """did this path of an emitter arm append at least one line?"""
    CAP = 4096

    def __init__(self, em, loop):
        self.em = em
        self.loop = loop
        self.exits = []

    def fact_names(self, f):
        return set(f[3]) if isinstance(f, tuple) and f[0] == "c" else set()

    def gen(self, stmt, alt):
        for c in walk_local(stmt):
            if isinstance(c, ast.Call) and isinstance(c.func, ast.Attribute) and c.func.attr in ("append", "extend") and norm(c.func.value) == "lines":
                return {"E"}
        return set()

    def cond_facts(self, test, truth):
        out = set()
        for atom, t in [(test, truth)] + [a for a in split_and(test, truth) if a[0] is not test]:
            names = tuple(sorted({n.id for n in ast.walk(atom) if isinstance(n, ast.Name)} - {"node"}))
            out.add(("c", norm(atom), t, names))
        return out

    def visit(self, stmt, state):
        if isinstance(stmt, ast.Continue) and c07._loop_of(self.em, stmt) is self.loop:
            for alt in state:
                self.exits.append((stmt, alt))


SILENT_OK = [
    ("info is None", True, "the display was never declared"),
    ("decl is None", True, "the button was never declared"),
    ("melody_data is None", True, "unknown melody (rejected by the parser)"),
    ("not node.pattern", True, "empty flash pattern: nothing to do"),
    ("node.global_scope", True, "global declarations are emitted in the globals section"),
    ("in_setup", False, "device declarations are configured by emit() pass 1 when met in loop()"),
    ("pin_expr and brightness_var and state_var", False, "LCD without a backlight pin: backlight commands are no-ops on both sides"),
    ("tick_func is None", True, "unknown animation kind"),
]
DECL_BOOKKEEPING = {"ButtonDecl", "ServoDecl", "PotentiometerDecl", "LCDDecl", "LedDecl", "BuzzerDecl", "RGBLedDecl", "UltrasonicDecl", "DCMotorDecl", "LCDTick"}


def _guards_of(body, pred, conds=()):
    """[(statement, tuple of (condition expr, truth))] for every statement in ``body`` satisfying pred; a `continue`/`return`/
    `break` earlier in a block makes the rest of the block conditional on the negation of its guard"""
    out = []
    cur = list(conds)
    for st in body:
        k = st["k"]
        if pred(st):
            out.append((st, tuple(cur)))
        if k == "block":
            out += _guards_of(st["body"], pred, cur)
        elif k == "if":
            out += _guards_of(st["then"], pred, cur + [(st["cond"], True)])
            if st["else"]:
                out += _guards_of(st["else"], pred, cur + [(st["cond"], False)])
            ends = lambda b: bool(b) and b[-1]["k"] in ("continue", "return", "break")
            if ends(st["then"]) and not st["else"]:
                cur = cur + [(st["cond"], False)]
        elif k in ("for", "while"):
            out += _guards_of(st["body"], pred, cur + [(st["cond"], True)])
    return out


def rule_list_helpers(cx, rid):
    """Python list semantics of the generated helpers, clause by clause, on the clang AST of the helper templates"""
    from . import c09
    em = mod("transpile/emitter.py")
    fns, _snip, names = c09.list_helpers(em)
    where = (em.rel, em.const("LIST_HELPER_SNIPPET").lineno)
    r = cx.rule(rid, "the list helpers have Python's list semantics: append copies every element in place and adds one at the end; remove deletes the first equal element only (elements are dropped by position, never by value) and shrinks by one; indexing maps a negative index to index+len; len is the element count", floor=9)

    def generic(name):
        fl = [f for f in fns.get(name, []) if any("T" in (t or "").replace("__redu_list<T>", "T") for _n, t in f.get("params", []))]
        if not fl:
            raise AnalysisError(f"list helper {name} not found")
        return fl

    uses = lambda e, var: any(s_[0] == "var" and s_[1] == var for s_ in cxx.sub_exprs(e))
    is_buf_store = lambda st: st["k"] == "expr" and st["e"][0] == "assign" and st["e"][2][0] == "index" and st["e"][2][1][0] == "var"
    size_changes = lambda body: [show(st["e"]) for st in all_stmts(body) if st["k"] == "expr" and st["e"][0] in ("pre", "post", "assign") and show(st["e"][2]) == "list.size"]

    # remove ------------------------------------------------------------------------------------
    for f in generic("__redu_list_remove"):
        body = f["body"]
        loops = [st for st in all_stmts(body) if st["k"] in ("for", "while")]
        copy_stores = [(st, g) for st, g in _guards_of(body, is_buf_store) if any(s_[0] == "member" and s_[2] == "data" for s_ in cxx.sub_exprs(st["e"][3]))]
        if not copy_stores:
            raise AnalysisError("__redu_list_remove: no element copy into a new buffer found (helper rewritten: re-confirm its semantics)")
        for st, g in copy_stores:
            by_value = [show(c) for c, _t in g if uses(c, "value")]
            r.check(not by_value, "remove/elements-dropped-by-position", where, f"`{show(st['e'])}` is guarded by {by_value}: whether an element survives depends on its value, so every equal element is deleted, not only the first (Python's list.remove deletes one)")
        # first match: the statement recording the found position is followed by a break / return in the same block
        rec = []
        for lp in loops:
            for st, g in _guards_of(lp["body"], lambda s_: s_["k"] == "expr" and s_["e"][0] == "assign" and s_["e"][2][0] == "var" and s_["e"][3] == ("var", (lp.get("init") or [{}])[0].get("name")), ()):
                if any(uses(c, "value") for c, _t in g):
                    rec.append((lp, st))
        if not rec:
            raise AnalysisError("__redu_list_remove: the search for the element's position was not recognised")
        for lp, st in rec:
            blk = [b for b in all_stmts(lp["body"]) if b["k"] == "if" and any(x is st for x in b["then"])]
            ok = bool(blk) and blk[0]["then"][-1]["k"] in ("break", "return")
            r.check(ok, "remove/search-stops-at-first-match", where, f"after `{show(st['e'])}` the search continues: the position recorded is the last match, Python removes the first")
        sc = size_changes(body)
        r.check(sc in (["--list.size"], ["list.size--"], ["list.size -= 1"]), "remove/shrinks-by-one", where, f"size updates in remove: {sc}")

    # append ------------------------------------------------------------------------------------
    for f in generic("__redu_list_append"):
        body = f["body"]
        stores = _guards_of(body, is_buf_store)
        copies = [(st, g) for st, g in stores if any(s_[0] == "member" and s_[2] == "data" for s_ in cxx.sub_exprs(st["e"][3]))]
        tails = [(st, g) for st, g in stores if st["e"][3] == ("var", "value")]
        okc = len(copies) == 1 and show(copies[0][0]["e"][2][2]) == show(copies[0][0]["e"][3][2]) and all(not uses(c, "value") for c, _t in copies[0][1])
        r.check(okc, "append/copies-every-element-in-place", where, f"element copy in append: {[show(st['e']) for st, _g in copies]}")
        okt = len(tails) == 1 and show(tails[0][0]["e"][2][2]) == "list.size" and not tails[0][1]
        r.check(okt, "append/new-element-at-the-end", where, f"the appended value is stored by {[show(st['e']) for st, _g in tails]} (must be index list.size, unconditionally)")
        sc = size_changes(body)
        r.check(sc in (["++list.size"], ["list.size++"], ["list.size += 1"]), "append/grows-by-one", where, f"size updates in append: {sc}")

    # get: evaluated (C semantics) for every list size 1..4 and every valid index, positive and negative
    from . import c09 as _c09
    gv = generic("__redu_list_get")
    why_get = _c09.eval_list_get(gv) if gv else "getter not found"
    r.check(why_get is None, "get/negative-index-counts-from-the-end", where, f"indexing: {why_get}")
    # comprehension over range(): the helper visits exactly the values of Python's range(start, stop, step), in order, and
    # reports that many elements (abstract interpreter with exact unrolling on a grid of concrete arguments)
    import itertools
    from ..cabs import Exec, State
    from ..num import Iv
    fr = [f for f in fns.get("__redu_list_from_range", []) if any(t == "Func" for _n, t in f.get("params", []))]
    if not fr:
        raise AnalysisError("__redu_list_from_range not found")
    n_bad = 0
    for start, stop, step in itertools.product((0, 1, 7, -2, 10), (0, 5, -3, 7, 2), (1, 2, 3, -1, -2, -3)):
        seen = []

        def on_call(e, st, _seen=seen):
            if e[0] == "call" and e[2] and (cxx.callee(e) == "func" or (cxx.callee(e) == "operator()" and cxx.show(e[2][0]) == "func")):
                iv = ex.ev(e[2][-1], st)
                _seen.append(iv.lo if iv.lo == iv.hi else None)

        ex = Exec(on_call=on_call)
        ex.unroll = 32
        st0 = State()
        for k_, v_ in (("start", start), ("stop", stop), ("step", step)):
            st0.v[k_] = Iv(v_, v_)
        outs = ex.run(fr[-1]["body"], [st0])
        want = list(range(start, stop, step))
        sizes = {(s_.v.get("result.size").lo, s_.v.get("result.size").hi) for s_ in outs["ret"] + outs["fall"] if s_.v.get("result.size") is not None}
        good = [int(x) if x is not None else None for x in seen] == want and sizes == {(len(want), len(want))}
        if good:
            r.ok(None)
        else:
            n_bad += 1
            if n_bad <= 3:
                r.fail("from_range/elements=range(start,stop,step)", where, f"__redu_list_from_range({start}, {stop}, {step}) visits {seen} and reports size {sorted(sizes)}; Python's range gives {want}", detail={"start": start, "stop": stop, "step": step})
            else:
                r.stat.obligations += 1
                r.stat.failed += 1
    lens = [f for f in fns.get("__redu_len", []) if any("__redu_list<T>" in (t or "") for _n, t in f.get("params", []))]
    r.check(len(lens) == 1 and len(lens[0]["body"]) == 1 and lens[0]["body"][0]["k"] == "return" and show(lens[0]["body"][0]["e"]) == "value.size", "len/list-size", where, "len(list) must be the element count")
    return r


def tuple_rhs_once(r, pm):
    """every right-hand side of a tuple assignment is evaluated exactly once (one temporary per position)"""
    from ..flow import CallCount
    ha = pm.func("_handle_assignment_ast")
    tup = [n for n in walk_local(ha) if isinstance(n, ast.If) and norm(n.test) == "isinstance(target, (ast.Tuple, ast.List))"]
    if len(tup) != 1:
        raise AnalysisError("tuple-assignment branch not found")
    tb = tup[0]
    # every right-hand side is evaluated exactly once: each pass of the loop over the right-hand sides creates one temporary
    rl = [n for n in walk_local(tb) if isinstance(n, ast.For) and "right_data" in norm(n.iter) and any(isinstance(c, ast.Call) and norm(c.func) == "tmp_nodes.append" for c in ast.walk(n))]
    if len(rl) != 1:
        raise AnalysisError("tuple assignment: the loop creating the temporaries was not recognised")
    cc = CallCount(lambda c: norm(c.func) == "tmp_nodes.append")
    o = cc.block(rl[0].body, (0, 0))
    ends = [x for x in (o.fall, o.cont) if x is not None]
    r.check(bool(ends) and all(e == (1, 1) for e in ends) and o.brk is None, "tuple/one-temporary-per-right-hand-side", (pm, rl[0]), f"temporaries created per right-hand side on the paths through the loop: {ends}{' (or the loop stops early)' if o.brk is not None else ''}; `lo, hi = pot.read(), pot.read()` must evaluate (read) twice, as Python does")


def run(cx):
    pm, em, am = mod(PARSER), mod(EMITTER), mod(ASTPY)
    for m in (pm, em, am):
        cx.consulted(m)
    cx.explanation = (
        "the expression translator is evaluated on every operator/chain/nesting shape and the emitted C++ is parsed by clang; its "
        "typed tree must be the Python tree with each operator mapped to a C++ operator of the same meaning (unsound rows are "
        "itemised known findings); every IR class the parser can build has an emitter arm; every arm appends on every path or "
        "leaves through one of a fixed list of guards; child blocks are emitted in declaration order with a header per branch; "
        "statement lists only grow by append; control-flow headers of extracted sketches have Python's structure; tuple "
        "assignment is two-phase; the parser's dispatch loops account for every statement (shared with C07).  Value equality of "
        "traces (16-bit int, float printing) is not decided."
    )
    cls, fields = pe.ir_classes()
    tce = pm.func("_to_c_expr")

    def translate(src, ctx=None):
        try:
            return dl.Interp(pm, opaque={"ast.parse": ast.parse, "re.fullmatch": re.fullmatch, "re.sub": re.sub}).call(tce, [src, {}, ctx if ctx is not None else {}])
        except dl.Unsupported as e:
            raise AnalysisError(f"_to_c_expr left the evaluable subset on `{src}`: {e}")

    # ---- C01-OPS -----------------------------------------------------------------------------
    r = cx.rule("C01-OPS", "every Python operator is emitted as a C++ operator with the same meaning on the values a script computes; literals keep their type (a float literal stays a floating literal); builtins map to their C++ counterparts", floor=40)
    tbl = lit.table(pm, "_BIN")
    for k in sorted(PY_OPS):
        out = translate(f"a {PY_OPS[k]} b")
        txt = out.value if out.kind == "return" else None
        if k not in {getattr(x, "name", "") for x in tbl} and out.kind == "raise":
            r.ok(f"{k}: rejected")
            continue
        want = C_OPS[k]
        if want is None:
            key, msg = UNSOUND[k]
            sound = out.kind == "raise" or (txt is not None and (("static_cast<float>" in txt or "(float)" in txt or "1.0" in txt) if k == "Div" else any(h in txt for h in ("__redu_floordiv", "__redu_mod", "floor(", "pow(", "__redu_pow"))))
            r.check(sound, key, (pm.rel, pm.const("_BIN").lineno), f"{msg} (emitted: `{txt}`)")
        else:
            r.check(_unparen(txt) == f"a {want} b", f"binop[{k}]->{want}", (pm.rel, pm.const("_BIN").lineno), f"`a {PY_OPS[k]} b` is emitted as `{txt}`; expected `(a {want} b)`")
    for k, tok in CMP.items():
        pyt = {"Eq": "==", "NotEq": "!=", "Lt": "<", "LtE": "<=", "Gt": ">", "GtE": ">="}[k]
        out = translate(f"a {pyt} b")
        r.check(out.kind == "return" and _unparen(out.value) == f"a {tok} b", f"compare[{k}]->{tok}", (pm.rel, pm.const("_CMP").lineno), f"`a {pyt} b` -> {out!r}")
    for src, want in (("-a", "(-a)"), ("+a", "(+a)"), ("not a", "(!a)"), ("a and b", "(a && b)"), ("a or b", "(a || b)"), ("a if b else c", "(b ? a : c)")):
        out = translate(src)
        # the operator and operand order are decided here; which parentheses are needed is decided by C01-SHAPE on clang's tree
        r.check(out.kind == "return" and _unparen(out.value) == _unparen(want), f"form[{src}]", (pm, tce), f"`{src}` -> {out!r}, expected `{want}` (outer parentheses optional)")
    # and/or in value context
    from . import c02  # the type side of the same defect is C02's boolop finding
    out = translate("a or b")
    r.check(out.kind == "raise" or "?" in (out.value or ""), "boolop-value-context", (pm, tce), f"`x = a or b` yields an operand in Python (0 or 5 -> 5) but is emitted as `{out.value}` which yields true/false")
    for src, pred, why in (("5", lambda t: t == "5", "int literal"), ("True", lambda t: t == "true", "bool literal"), ("False", lambda t: t == "false", "bool literal"),
                           ("5.0", lambda t: re.fullmatch(r"\d+\.\d*(e[+-]?\d+)?f?|\d+e[+-]?\d+f?", t) is not None, "integral float literal must stay a floating literal"),
                           ("2.5", lambda t: float(t.rstrip("f")) == 2.5 and ("." in t or "e" in t), "float literal"),
                           ("1e-05", lambda t: abs(float(t.rstrip("f")) - 1e-05) < 1e-12 and ("." in t or "e" in t), "small float literal"),
                           ("100.0", lambda t: ("." in t or "e" in t) and float(t.rstrip("f")) == 100.0, "integral float literal must stay a floating literal"),
                           ("1023.0 * a", lambda t: re.search(r"1023\.\d*|1\.023e", t) is not None, "float literal inside an expression")):
        out = translate(src)
        okv = out.kind == "return" and isinstance(out.value, str) and pred(out.value)
        r.check(okv, f"literal[{why}]", (pm, tce), f"`{src}` is emitted as `{out.value if out.kind == 'return' else out}`: {why} (an int literal would make the surrounding arithmetic integer arithmetic)")
    for src, want in (("abs(a)", "abs(a)"), ("max(a, b)", "max(a, b)"), ("min(a, b, c)", "min(min(a, b), c)"), ("int(a)", "static_cast<int>(a)"), ("float(a)", "static_cast<float>(a)"),
                      ("bool(a)", "static_cast<bool>(a)"), ("str(a)", "String(a)"), ("f'x={a}!'", '((String("x=") + String(a)) + "!")'), ("foo(a, b)", "foo(a, b)")):
        out = translate(src)
        r.check(out.kind == "return" and out.value == want, f"builtin[{src}]", (pm, tce), f"`{src}` -> {out!r}, expected `{want}`")

    # ---- C01-SHAPE ---------------------------------------------------------------------------
    r = cx.rule("C01-SHAPE", "the emitted C++ of every nesting/chain shape parses (clang) to the same tree as the Python expression: precedence preserved by parentheses, operands in order, chains expanded pairwise", floor=35)
    funcs = []
    for i, src in enumerate(SHAPES):
        out = translate(src)
        if out.kind != "return":
            r.fail(f"shape[{src}]/translates", (pm, tce), f"`{src}` -> {out!r}")
            continue
        funcs.append((i, src, out.value))
    tu = "#include <Arduino.h>\n" + "\n".join(f"long shape_{i}(long a, long b, long c, long d) {{ return {txt}; }}" for i, _s, txt in funcs)
    errs = cxx.typecheck(tu)
    if errs:
        # a shape whose translation is not C++ at all (`--1`, `++(a)` on an rvalue) is reported for that shape; the others go on
        bad_ids = set()
        for e_ in errs:
            m_ = re.search(r"shape_(\d+)\(", e_)
            if not m_:
                raise AnalysisError("shape translation unit does not compile: " + e_)
            bad_ids.add(int(m_.group(1)))
        for i, src, txt in funcs:
            if i in bad_ids:
                r.fail(f"shape[{src}]", (pm, tce), f"`{src}` is emitted as `{txt}`, which is not a C++ expression with Python's meaning: " + next(e_ for e_ in errs if f"shape_{i}(" in e_).split("   [")[0])
        funcs = [f_ for f_ in funcs if f_[0] not in bad_ids]
        tu = "#include <Arduino.h>\n" + "\n".join(f"long shape_{i}(long a, long b, long c, long d) {{ return {txt}; }}" for i, _s, txt in funcs)
        errs2 = cxx.typecheck(tu)
        if errs2:
            raise AnalysisError("shape translation unit does not compile: " + errs2[0])
    trees = cxx.ast_functions(tu, [f"shape_{i}" for i, _s, _t in funcs])
    for i, src, txt in funcs:
        body = trees[f"shape_{i}"][0]["body"]
        got = strip_casts(body[0]["e"]) if body and body[0]["k"] == "return" else None
        want = py_to_tree(ast.parse(src, mode="eval").body)
        r.check(got == want, f"shape[{src}]", (pm, tce), f"`{src}` is emitted as `{txt}` which C++ parses as {show(got) if got else '?'}; Python's structure is {show(want)}" + (" (C++ reads `--`/`++` as a decrement/increment of the variable, not as two signs)" if ("--" in txt or "++" in txt) else ""), sample=f"{src} -> {txt}")

    # ---- C01-IR-EXH --------------------------------------------------------------------------
    r = cx.rule("C01-IR-EXH", "every IR class the parser can construct is consumed by an emitter arm (or is a container consumed by emit()/a parent arm): a statement cannot be built and then dropped", floor=55, exhaustive=True)
    built = {call_name(c) for c in ast.walk(pm.tree) if isinstance(c, ast.Call) and call_name(c) in am.classes}
    eb = em.func("_emit_block")
    arms = set()
    for n in ast.walk(eb):
        if isinstance(n, ast.Call) and call_name(n) == "isinstance" and len(n.args) == 2 and norm(n.args[0]) == "node" and isinstance(n.args[1], ast.Name):
            arms.add(n.args[1].id)
    containers = {"Program": "emit()", "ConditionalBranch": "IfStatement arm", "CatchClause": "TryStatement arm", "FunctionDef": "emit()"}
    for c in sorted(built):
        if c in containers:
            r.ok(f"{c}: container consumed by {containers[c]}")
            continue
        r.check(c in arms, f"ir[{c}]/has-emitter-arm", (em, eb), f"the parser builds {c} nodes but _emit_block has no arm for them: the statement is silently dropped")
    cx.extra["ir_classes_built"] = len(built)
    cx.extra["emitter_arms"] = len(arms)

    # ---- C01-CHILD ---------------------------------------------------------------------------
    r = cx.rule("C01-CHILD", "control-flow arms emit every child block exactly once, in declaration order, with one header per branch/handler; the promotion rewriter rebuilds every child block", floor=12)
    S = cls["Sleep"]
    B = cls["ConditionalBranch"]
    prog_if = cls["IfStatement"](branches=[B(condition="H_a", body=[S(ms=1)]), B(condition="H_b", body=[]), B(condition="H_c", body=[S(ms=3)])], else_body=[S(ms=4)])
    res = pe.emit_program(setup=[prog_if, S(ms=9)], loop=[])
    body = l2.functions_of(res.text, ["setup"])["setup"][0]["body"]

    def if_chain(st):
        out = []
        while st is not None and st["k"] == "if":
            out.append((show(st["cond"]), [show(c) for c in all_calls(st["then"])]))
            els = st["else"]
            if els and len(els) == 1 and els[0]["k"] == "if":
                st = els[0]
            else:
                out.append(("else", [show(c) for c in all_calls(els or [])]))
                st = None
        return out

    chain = if_chain(body[0]) if body and body[0]["k"] == "if" else None
    want = [("H_a", ["delay(1)"]), ("H_b", []), ("H_c", ["delay(3)"]), ("else", ["delay(4)"])]
    r.check(chain == want, "IfStatement/one-header-per-branch-in-order", (em, eb), f"if/elif/elif/else with an empty middle branch is emitted as {chain}; expected {want} (dropping an empty elif lets later branches fire for its values)")
    r.check(len(body) == 2 and show(body[1]["e"]) == "delay(9)", "IfStatement/following-statement-after-the-chain", (em, eb), "statement after the if-chain misplaced")
    res = pe.emit_program(setup=[cls["IfStatement"](branches=[B(condition="H_a", body=[S(ms=1)])], else_body=[])], loop=[])
    body = l2.functions_of(res.text, ["setup"])["setup"][0]["body"]
    r.check(len(body) == 1 and body[0]["k"] == "if" and body[0]["else"] is None, "IfStatement/no-else-when-absent", (em, eb), "an if without else must not get an else block")
    res = pe.emit_program(setup=[cls["WhileLoop"](condition="H_a", body=[S(ms=1), cls["BreakStmt"]()]), cls["ForRangeLoop"](var_name="i", count="H_n", body=[S(ms="i")])], loop=[])
    body = l2.functions_of(res.text, ["setup"])["setup"][0]["body"]
    okw = len(body) == 2 and body[0]["k"] == "while" and show(body[0]["cond"]) == "H_a" and [s["k"] for s in body[0]["body"]] == ["expr", "break"]
    r.check(okw, "WhileLoop/header-and-body", (em, eb), "while loop shape changed")
    f = body[1] if len(body) > 1 else None
    okf = f is not None and f["k"] == "for" and f["init"] and f["init"][0]["name"] == "i" and f["init"][0]["init"] == ("lit", 0) and show(f["cond"]) == "(i < H_n)" and show(f["inc"]) in ("++i", "i++", "i += 1") and [show(c) for c in all_calls(f["body"])] == ["delay(i)"]
    r.check(bool(okf), "ForRangeLoop/range(n)=0..n-1-step-1", (em, eb), f"for-range header: init {f['init'] if f else '?'}, cond {show(f['cond']) if f else '?'}, inc {show(f['inc']) if f else '?'}")
    tr = cls["TryStatement"](try_body=[S(ms=1)], handlers=[cls["CatchClause"](exception="ValueError", target="e", body=[S(ms=2)]), cls["CatchClause"](exception=None, target=None, body=[S(ms=3)])])
    res = pe.emit_program(setup=[tr], loop=[])
    delays = re.findall(r"delay\((\d)\)", res.text)
    r.check(delays == ["1", "2", "3"] and res.text.count("catch (") == 2 and res.text.count("try {") == 1, "TryStatement/body-then-handlers-in-order", (em, eb), f"try/except emitted as delays {delays}")
    rw = pm.func("_rewrite_nodes")
    list_fields = {c: [f_ for f_, ann, _d in fields[c] if ann.startswith("List[") and "object" in ann or ann.startswith("List[ConditionalBranch") or ann.startswith("List[CatchClause")] for c in ("IfStatement", "WhileLoop", "ForRangeLoop", "TryStatement")}
    for c, fl in list_fields.items():
        for f_ in fl:
            rebuilt = any(isinstance(k, ast.keyword) and k.arg == f_ for call in walk_local(rw) if isinstance(call, ast.Call) and call_name(call) == c for k in call.keywords)
            r.check(rebuilt, f"_rewrite_nodes/{c}.{f_}-rebuilt", (pm, rw), f"_rewrite_nodes does not rebuild {c}.{f_}: promoted declarations inside it would stay declarations (redeclaring the variable in an inner scope)")
    # per-iteration effect of loops over child collections inside arms
    for n in walk_local(eb):
        if isinstance(n, ast.For) and any(t in norm(n.iter) for t in ("node.branches", "node.handlers")):
            an = ArmEffect(em, n)
            out = an.block(n.body, frozenset({frozenset()}))
            ends = list(out.fall or []) + list(out.cont or [])
            r.check(bool(ends) and all("E" in alt for alt in ends), f"_emit_block/for[{norm(n.iter)}]-emits-every-iteration", (em, n), f"an iteration over {norm(n.iter)} can finish without emitting its block header: that branch/handler would vanish from the firmware")

    # ---- C01-ARM-EMITS -----------------------------------------------------------------------
    r = cx.rule("C01-ARM-EMITS", "every emitter arm appends at least one line on every path, or leaves through one of the documented guards (undeclared device, empty pattern, global declaration, declaration bookkeeping, no backlight pin)", floor=60)
    loop = None
    for st in eb.body:
        if isinstance(st, ast.For) and norm(st.iter) == "nodes":
            loop = st
    if loop is None:
        raise AnalysisError("_emit_block main loop not found")
    n_arms = 0
    for st in loop.body:
        if not (isinstance(st, ast.If) and "isinstance(node, " in norm(st.test)):
            continue
        m_ = re.search(r"isinstance\(node, (\w+)\)", norm(st.test))
        cname = m_.group(1) if m_ else "?"
        n_arms += 1
        an = ArmEffect(em, loop)
        out = an.block(st.body, frozenset({frozenset()}))
        exits = list(an.exits) + [(st, alt) for alt in (out.fall or [])]
        for node_, alt in exits:
            if "E" in alt:
                r.ok(None)
                continue
            cs = {(f[1], f[2]) for f in alt if isinstance(f, tuple) and f[0] == "c"}
            why = None
            for t, tv, reason in SILENT_OK:
                if (t, tv) in cs:
                    why = reason
            if why is None and cname == "IfStatement" and cs <= {("node.else_body", False)}:
                why = "an if statement always has a first branch (parser invariant); per-branch emission is decided by C01-CHILD"
            if why is None and cname == "LCDMessage" and ("node.top is not None", False) in cs and ("node.bottom is not None", False) in cs:
                why = "message() without top and bottom text writes nothing on the host either"
            if why is None and cname in DECL_BOOKKEEPING:
                why = "declaration bookkeeping (configured by emit() pass 1 / dedup of pinMode)"
            if why is None and any(("not in emitted_pin_modes" in t or "not in ultrasonic_pin_modes" in t) and not tv for t, tv in cs):
                why = "pin mode already emitted"
            r.check(why is not None, f"arm[{cname}]/silent-path", (em, node_), f"the {cname} arm can finish without emitting anything under {sorted(cs)[:4]}: the statement would vanish from the firmware", sample=f"{cname}: silent only when {why}")
    if n_arms < 55:
        raise AnalysisError(f"only {n_arms} emitter arms recognised")
    # nothing after the last arm swallows unknown nodes silently is covered by C01-IR-EXH

    # ---- C01-ORDER ---------------------------------------------------------------------------
    r = cx.rule("C01-ORDER", "statement and line lists only grow at the end (append/extend); node lists are walked forwards", floor=20)
    LISTS = {"body", "setup_body", "loop_body", "lines", "setup_lines", "loop_lines", "globals_", "parts", "nodes", "function_sections", "block_lines"}
    for m in (pm, em):
        for q, fn in m.funcs.items():
            for n in walk_local(fn, include_self=False):
                if isinstance(n, ast.Call) and isinstance(n.func, ast.Attribute) and isinstance(n.func.value, ast.Name) and n.func.value.id in LISTS:
                    okm = n.func.attr in ("append", "extend", "index", "count", "copy")
                    r.check(okm, f"{q}/{n.func.value.id}.{n.func.attr}", (m, n), f"`{stmt_key(n)}`: emitted statements must keep source order", sample=None)
                if isinstance(n, ast.For) and isinstance(n.iter, ast.Call) and call_name(n.iter) in ("reversed", "sorted") and n.iter.args and norm(n.iter.args[0]) in LISTS | {"node.branches", "node.handlers", "snippet", "lines"}:
                    r.fail(f"{q}/for-{call_name(n.iter)}[{norm(n.iter.args[0])}]", (m, n), "statements are visited out of source order")

    # ---- C01-SWAP ----------------------------------------------------------------------------
    r = cx.rule("C01-SWAP", "tuple assignment is two-phase: every right-hand side is bound to a fresh temporary before any target is written (except when all targets are new globals)", floor=3)
    ha = pm.func("_handle_assignment_ast")
    tup = [n for n in walk_local(ha) if isinstance(n, ast.If) and norm(n.test) == "isinstance(target, (ast.Tuple, ast.List))"]
    if len(tup) != 1:
        raise AnalysisError("tuple-assignment branch not found")
    tb = tup[0]
    for c in walk_local(tb):
        if isinstance(c, ast.Call) and call_name(c) in ("VarAssign", "VarDecl"):
            nm = kwarg(c, "name")
            ex = kwarg(c, "expr")
            if nm is None or ex is None:
                continue
            cs = lexical_conds(pm, c)
            if norm(nm) == "tmp_name":
                r.check(norm(ex) == "expr_c", "tuple/temporaries-hold-the-right-hand-sides", (pm, c), f"temporary initialised with `{norm(ex)}`")
                continue
            if ("all_new and is_global_scope", True) in cs:
                r.ok("all-new globals: no target can occur on the right-hand side")
                continue
            r.check(norm(ex) == "tmp_names[idx]", "tuple/targets-assigned-from-temporaries", (pm, c), f"`{stmt_key(c)}` under {sorted(cs)}: a target is written directly from a right-hand side; `count, doubled = count + 1, count * 2` would read the already updated count")
    tuple_rhs_once(r, pm)
    ext = [n for n in walk_local(tb) if isinstance(n, ast.Expr) and norm(n.value) == "nodes.extend(tmp_nodes)"]
    r.check(len(ext) == 1, "tuple/temporaries-emitted-first", (pm, tb), "the temporaries must be emitted before the target assignments")

    # ---- C01-LIST ----------------------------------------------------------------------------
    rule_list_helpers(cx, "C01-LIST")

    # ---- C01-FOLD (shared with C03): a value folded at transpile time is the value Python computes at that point ------
    from . import c03
    c03.rule_fold_sites(cx, "C01")
    c03.rule_global_init(cx, "C01-GLOBAL-INIT")

    # ---- C01-DISPATCH (shared with C07) ------------------------------------------------------
    c07.rule_dispatch(cx, "C01")

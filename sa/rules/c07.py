"""C07 - every line is accounted for and stays in the block Python assigns it to.
(C01-DISPATCH re-uses ``rule_dispatch`` from here.)"""
from __future__ import annotations

import ast
import itertools

import os

from .. import dl, l2, lit, pe
from .. import rx as rxa
from ..core import AnalysisError
from ..flow import PathFacts, split_and
from ..src import Locals, call_name, dotted, mod, norm, stmt_key, walk_local

PARSER = "transpile/parser.py"
EFFECT_CALLS = {"_parse_function"}


def header_regexes(pm):
    """regex constants that recognise a block header (pattern ends with `:` + optional blanks + `$`)."""
    out = {}
    for name, node in pm.consts.items():
        v = lit.try_ev(node, pm)
        if isinstance(v, lit.Regex) and v.pattern.rstrip().endswith(r":\s*$"):
            out[name] = v.pattern
    return out


def _loop_of(pm, node):
    for a in pm.ancestors(node):
        if isinstance(a, (ast.While, ast.For)):
            return a
        if isinstance(a, (ast.FunctionDef, ast.AsyncFunctionDef)):
            return None
    return None


def find_dispatch_loop(pm, fn, seq_name):
    for st in fn.body:
        if isinstance(st, ast.While) and norm(st.test) == f"i < len({seq_name})":
            return st
    raise AnalysisError(f"dispatch loop `while i < len({seq_name})` not found in {fn.name}")


class Dispatch(PathFacts):
    """facts: 'E' (an IR node was appended / an error raised / a function registered since the loop head),
    ('re', var, REGEX) (var currently holds REGEX.match/finditer result), ('c', text, truth) branch facts,
    'EVAL_OK' (a bare `_eval_const(<line>, ...)` statement completed)."""

    CAP = 4096

    def __init__(self, pm, loop, sinks, line_vars):
        self.pm = pm
        self.loop = loop
        self.sinks = sinks          # names of the result lists
        self.line_vars = line_vars  # names holding the current line text
        self.exits = []             # (node, alt) for continue statements of the dispatch loop

    def fact_names(self, f):
        if isinstance(f, tuple):
            if f[0] == "re":
                return {f[1]}
            if f[0] == "c":
                return set(f[3])
        return set()

    def _effect(self, node, depth=0):
        for c in walk_local(node):
            if isinstance(c, ast.Call):
                if isinstance(c.func, ast.Attribute) and c.func.attr in ("append", "extend") and isinstance(c.func.value, ast.Name) and c.func.value.id in self.sinks:
                    return True
                if call_name(c) in EFFECT_CALLS:
                    return True
                # a local closure (or module helper) that performs the effect on every path: `_parse_into_setup(snippet)`
                if isinstance(c.func, ast.Name) and depth < 3:
                    encl = self.pm.enclosing_func(self.loop)
                    for cand in ([f"{encl.name}.{c.func.id}"] if encl is not None else []) + [c.func.id]:
                        f_ = self.pm.funcs.get(cand)
                        if f_ is not None and f_ is not encl and self._always_effect(f_.body, depth + 1):
                            return True
        return False

    def _always_effect(self, body, depth):
        """every path through this statement list performs the effect (straight-line prefix suffices)"""
        for st in body:
            if isinstance(st, (ast.If, ast.While, ast.For, ast.Try, ast.With)):
                return False
            if isinstance(st, ast.Return) and st.value is None:
                return False
            if self._effect(st, depth):
                return True
        return False

    def gen(self, stmt, alt):
        g = set()
        if self._effect(stmt):
            g.add("E")
        if isinstance(stmt, ast.Assign) and len(stmt.targets) == 1 and isinstance(stmt.targets[0], ast.Name):
            v = stmt.value
            tgt = stmt.targets[0].id
            inner = v.args[0] if isinstance(v, ast.Call) and call_name(v) == "list" and v.args else v
            if isinstance(inner, ast.Call) and isinstance(inner.func, ast.Attribute) and inner.func.attr in ("match", "fullmatch", "finditer", "search") and isinstance(inner.func.value, ast.Name):
                g.add(("re", tgt, inner.func.value.id))
        if isinstance(stmt, ast.Expr) and isinstance(stmt.value, ast.Call) and call_name(stmt.value) == "_eval_const" and stmt.value.args and norm(stmt.value.args[0]) in self.line_vars:
            g.add("EVAL_OK")
        return g

    def assume(self, test, state, truth):
        out = set()
        atoms = [(test, truth)] + [a for a in split_and(test, truth) if a[0] is not test]
        for alt in state:
            g = set()
            for atom, t in atoms:
                names = tuple(sorted({n.id for n in ast.walk(atom) if isinstance(n, ast.Name)}))
                g.add(("c", norm(atom), t, names))
                if isinstance(atom, ast.Name) and t:
                    for f in alt:
                        if isinstance(f, tuple) and f[0] == "re" and f[1] == atom.id:
                            g.add(("c", f"matched:{f[2]}", True, (atom.id,)))
            if self._effect(test):
                g.add("E")
            out.add(alt | frozenset(g))
        return frozenset(out) if out else None

    def visit(self, stmt, state):
        if isinstance(stmt, ast.Continue) and _loop_of(self.pm, stmt) is self.loop:
            for alt in state:
                self.exits.append((stmt, alt))


def _conds(alt):
    return {(f[1], f[2]) for f in alt if isinstance(f, tuple) and f[0] == "c"}


def regexes_tested(pm, node, subst=None, depth=0):
    """the module-level regex constants whose `.match(...)` the expression is a disjunction of, however it is spelled:
    `A.match(x) or B.match(x)`, `any(p.match(x) for p in TABLE)`, or a one-expression helper taking the table; None when the
    expression is anything else"""
    subst = subst or {}
    if depth > 4:
        return None
    if isinstance(node, ast.BoolOp) and isinstance(node.op, ast.Or):
        out = set()
        for v in node.values:
            sub = regexes_tested(pm, v, subst, depth + 1)
            if sub is None:
                return None
            out |= sub
        return out

    def table_of(e):
        e = subst.get(e.id, e) if isinstance(e, ast.Name) else e
        if isinstance(e, ast.Name) and e.id in pm.consts:
            e = pm.consts[e.id]
        if isinstance(e, (ast.Tuple, ast.List)) and e.elts and all(isinstance(x, ast.Name) for x in e.elts):
            return [x.id for x in e.elts]
        return None

    if isinstance(node, ast.Call) and isinstance(node.func, ast.Attribute) and node.func.attr in ("match", "fullmatch") and isinstance(node.func.value, ast.Name):
        nm = node.func.value.id
        tgt = subst.get(nm)
        if isinstance(tgt, ast.Name):
            nm = tgt.id
        return {nm} if nm in pm.consts else None
    if isinstance(node, ast.Call) and call_name(node) == "any" and len(node.args) == 1 and isinstance(node.args[0], (ast.GeneratorExp, ast.ListComp)):
        g = node.args[0]
        if len(g.generators) == 1 and not g.generators[0].ifs and isinstance(g.generators[0].target, ast.Name):
            tbl = table_of(g.generators[0].iter)
            e = g.elt
            if tbl and isinstance(e, ast.Call) and isinstance(e.func, ast.Attribute) and e.func.attr in ("match", "fullmatch") and isinstance(e.func.value, ast.Name) and e.func.value.id == g.generators[0].target.id:
                return set(tbl)
        return None
    if isinstance(node, ast.Call) and isinstance(node.func, ast.Name) and node.func.id in pm.funcs and not node.keywords:
        f_ = pm.funcs[node.func.id]
        body = [st for st in f_.body if not (isinstance(st, ast.Expr) and isinstance(st.value, ast.Constant))]
        if len(body) == 1 and isinstance(body[0], ast.Return) and body[0].value is not None and len(f_.args.args) == len(node.args):
            sub = {a.arg: v for a, v in zip(f_.args.args, node.args)}
            sub = {k_: (subst.get(v_.id, v_) if isinstance(v_, ast.Name) else v_) for k_, v_ in sub.items()}
            return regexes_tested(pm, body[0].value, sub, depth + 1)
    return None


def classify_silent(pm, alt, line_vars):
    """Return the whitelisted kind of a silent exit, or None."""
    cs = _conds(alt)
    texts = {t for t, tr in cs if tr}
    for v in line_vars:
        if (f"not {v}", True) in cs or (v, False) in cs:
            return "blank"
        if (f"not {v} or {v}.startswith('#')", True) in cs:
            return "blank-or-comment"
    for t, tr in cs:
        if not tr:
            continue
        try:
            node = ast.parse(t, mode="eval").body
        except SyntaxError:
            continue
        names = regexes_tested(pm, node)
        if names and all(n_.startswith("RE_IMPORT_") for n_ in names):
            return "import-filter"
    if "matched:RE_TARGET_CALL" in texts or "matched:RE_TARGET_INLINE" in texts:
        return "target-directive"
    for t in texts:
        if "expr_node.func.id == 'print'" in t and "isinstance(expr_node, ast.Call)" in t:
            return "host-only-print"
    if "EVAL_OK" in alt and ("_expr_has_name(expr_node)", False) in cs:
        return "constant-expression"
    return None


ACCOUNT_HEAD = ("from Reduino.Actuators import Led\nfrom Reduino.Sensors import Potentiometer\nfrom Reduino.Communication import SerialMonitor\nfrom Reduino.Utils import sleep\n"
                "led = Led(13)\npot = Potentiometer('A0')\nmon = SerialMonitor(9600)\nx = 1\nitems = [1, 2]\ndef helper(v):\n    return v + 1\n")
# statement -> expected fate: "ir" (must leave a trace in the IR or be refused), "silent" (meaningless for the device:
# may vanish), "refuse-or-ir" (not part of the DSL: must be refused with ValueError or translated - never dropped)
ACCOUNT_STMTS = {
    "device-call": ("led.on()", "ir"), "sleep": ("sleep(10)", "ir"), "assignment": ("y = x + 1", "ir"), "augmented-assignment": ("x += 2", "ir"), "tuple-assignment": ("a, b = 1, 2", "ir"),
    "list-append": ("items.append(3)", "ir"), "function-call-statement": ("helper(2)", "ir"), "serial-write": ("mon.write(x)", "ir"), "nested-call-statement": ("helper(helper(1))", "ir"),
    "if-block": ("if x > 1:\n    led.off()", "ir"), "while-block": ("while x < 3:\n    x = x + 1", "ir"), "for-range-block": ("for i in range(2):\n    led.toggle()", "ir"),
    "try-block": ("try:\n    x = 1\nexcept Exception:\n    x = 2", "ir"),
    "pass": ("pass", "silent"), "comment": ("# just a comment", "silent"), "blank": ("", "silent"), "string-statement": ("'a string statement'", "silent"), "print": ("print('hi')", "silent"),
    "constant-expression": ("1 + 2", "silent"), "target-call": ("target('/dev/ttyUSB0')", "silent"), "reduino-import": ("from Reduino.Actuators import Servo", "silent"),
    "continue": ("continue", "refuse-or-ir"), "subscript-store": ("items[0] = 5", "refuse-or-ir"), "del": ("del x", "refuse-or-ir"), "annotated-assignment": ("z: int = 5", "refuse-or-ir"),
    "global": ("global x", "silent"), "assert": ("assert x", "refuse-or-ir"), "with-block": ("with open('f') as fh:\n    pass", "refuse-or-ir"), "class": ("class A:\n    pass", "refuse-or-ir"),
    "raise": ("raise ValueError('x')", "refuse-or-ir"), "unknown-method": ("led.explode()", "refuse-or-ir"), "unknown-object": ("foo.bar()", "refuse-or-ir"), "starred-assignment": ("a, *b = items", "refuse-or-ir"),
    "walrus": ("(n := 5)", "refuse-or-ir"), "two-statements-on-a-line": ("led.on(); led.off()", "refuse-or-ir"), "chained-assignment": ("p = q = 3", "refuse-or-ir"), "attribute-store": ("led.pin = 5", "refuse-or-ir"),
    "dangling-elif": ("elif x:\n    pass", "refuse-or-ir"), "dangling-else": ("else:\n    pass", "refuse-or-ir"), "other-import": ("import os", "silent"), "nonlocal": ("nonlocal x", "refuse-or-ir"),
    "yield": ("yield x", "refuse-or-ir"), "lambda-assignment": ("f = lambda v: v", "refuse-or-ir"),
}


def _account_contexts(stmt):
    ind = lambda s_, n_: "".join(" " * n_ + l_ + "\n" for l_ in s_.split("\n"))
    return {
        "setup": ACCOUNT_HEAD + ind(stmt, 0) + "while True:\n    sleep(1)\n",
        "main-loop": ACCOUNT_HEAD + "while True:\n" + ind(stmt, 4) + "    sleep(1)\n",
        "function": ACCOUNT_HEAD + "def fn(q):\n" + ind(stmt, 4) + "    return q\nwhile True:\n    x = fn(x)\n",
        "nested-block": ACCOUNT_HEAD + "while True:\n    if x > 0:\n" + ind(stmt, 8) + "        sleep(2)\n    sleep(1)\n",
    }


def _account_worker(item):
    from .. import pe as pe_
    label, stmt = item
    out = {}
    for cname, src in _account_contexts(stmt).items():
        try:
            _it, o = pe_.parse_source(src)
        except AnalysisError as e:
            out[cname] = ("error", str(e))
            continue
        except Exception as e:       # interpreter limits
            out[cname] = ("error", f"{type(e).__name__}: {e}")
            continue
        out[cname] = ("raise", o.value) if o.kind != "return" else ("ir", repr(o.value))
    return label, out


def rule_account(cx, rid_prefix):
    """every statement is accounted for - by evaluation: each statement of a corpus (DSL statements, meaningless lines, Python
    statements outside the DSL) is placed before the main loop, in it, in a function and in a nested block; the script is
    parsed (partial evaluation) and compared with the same script without the statement"""
    import concurrent.futures as cf
    pm = mod(PARSER)
    cx.consulted(pm)
    pf = pm.func("parse")
    r = cx.rule(f"{rid_prefix}-DISPATCH", "every statement is accounted for: for a corpus of statements (device calls, assignments, blocks; blank/comment/pass/print/string/constant/import lines; Python statements outside the DSL such as continue, del, assert, class, raise, subscript stores, `a; b`) placed before the main loop, in it, in a function and in a nested block, parse() either refuses the script with ValueError or the IR differs from the IR of the script without the statement - only the meaningless kinds may vanish", floor=40)
    items = [("<none>", "")] + [(k, v[0]) for k, v in ACCOUNT_STMTS.items()]
    try:
        with cf.ProcessPoolExecutor(max_workers=__import__('sa.core', fromlist=['workers']).workers(8)) as ex:
            results = dict(ex.map(_account_worker, items))
    except Exception:
        results = dict(_account_worker(it_) for it_ in items)
    base = results["<none>"]
    for cname, (kind, val) in base.items():
        if kind != "ir":
            raise AnalysisError(f"the accounting script without a statement is not accepted in context {cname}: {val}")
    for label, (stmt, fate) in ACCOUNT_STMTS.items():
        dropped, internal = [], []
        for cname, (kind, val) in results[label].items():
            if kind == "error":
                raise AnalysisError(f"parse() left the evaluable subset on `{stmt.splitlines()[0] if stmt else ''}` ({cname}): {val}")
            if kind == "raise":
                if val != "ValueError":
                    internal.append((cname, val))
                continue
            if val == base[cname][1]:
                dropped.append(cname)
        first = stmt.split("\n")[0]
        if fate == "silent":
            r.check(not internal, f"account[{label}]", (pm, pf), f"`{first}` raises {internal}", sample=f"{label}: may vanish")
            continue
        r.check(not dropped and not internal, f"account[{label}]", (pm, pf), f"`{first}` " + (f"vanishes without a diagnostic when written {', '.join(dropped)}: the IR is the IR of the script without it" if dropped else f"raises {internal}") + (" (it must leave a trace in the IR or be refused with ValueError)" if fate == "ir" else " (a statement outside the DSL must be refused with ValueError, not dropped)"), sample=f"{label}: accounted")
    return r


def rule_dispatch(cx, rid_prefix):
    pm = mod(PARSER)
    cx.consulted(pm)
    r = cx.rule(f"{rid_prefix}-DISPATCH", "at every exit of the statement-dispatch loops an IR node was appended, an error raised or a function registered on that path, unless the exit is one of the fixed meaningless-line kinds (blank, comment, import filter, target directive, host-only print, constant expression)", floor=60)
    res = {}
    for fn_name, seq, sinks, lvars in (("_parse_simple_lines", "snippet", {"body"}, {"line"}), ("parse", "lines", {"setup_body", "loop_body"}, {"text"})):
        fn = pm.func(fn_name)
        loop = find_dispatch_loop(pm, fn, seq)
        an = Dispatch(pm, loop, sinks, lvars)
        out = an.block(loop.body, frozenset({frozenset()}))
        exits = list(an.exits)
        if out.fall is not None:
            for alt in out.fall:
                exits.append((loop.body[-1], alt))
        n_silent = {}
        for node, alt in exits:
            if "E" in alt:
                r.ok(None)
                continue
            kind = classify_silent(pm, alt, lvars)
            if kind is not None:
                n_silent[kind] = n_silent.get(kind, 0) + 1
                r.ok(f"{fn_name}: silent exit allowed [{kind}]")
                continue
            # a silent, non-whitelisted exit: key it by what distinguishes the path
            cs = _conds(alt)
            if isinstance(node, ast.Continue):
                encl = [a for a in pm.ancestors(node) if isinstance(a, ast.If)]
                tag = norm(encl[0].test)[:60] if encl else "unconditional"
                key = f"{fn_name}/silent-continue[{tag}]"
                msg = f"a statement can leave the dispatch loop at this `continue` (under `{tag}`) without producing an IR node or an error"
            else:
                if ("expr_c is not None", False) in cs or ("expr_c is None", True) in cs:
                    key = f"{fn_name}/fallthrough[untranslatable-expression-swallowed]"
                    msg = "an expression statement whose translation raised is swallowed (`except Exception: expr_c = None`) and the line is dropped without diagnostic"
                else:
                    key = f"{fn_name}/fallthrough[unknown-statement-ignored]"
                    msg = "a statement matched by no arm (e.g. `continue`, `for x in items:`, `items[0] = 5`, a call on a device with unsupported arguments) falls off the end of the dispatch loop and is ignored without diagnostic"
            r.fail(key, (pm, node), msg)
        res[fn_name] = {"exits": len(exits), "silent_allowed": n_silent}
    cx.extra.setdefault("dispatch", {}).update(res)
    # every regex arm of _parse_simple_lines must be able to reach an effect: m = RE_X.match(line); if m: ...
    fn = pm.func("_parse_simple_lines")
    loop = find_dispatch_loop(pm, fn, "snippet")
    arms = 0
    for i, st in enumerate(loop.body[:-1]):
        if isinstance(st, ast.Assign) and isinstance(st.value, ast.Call) and isinstance(st.value.func, ast.Attribute) and st.value.func.attr == "match" and isinstance(loop.body[i + 1], ast.If):
            arms += 1
    if arms < 45:
        raise AnalysisError(f"only {arms} regex arms recognised in _parse_simple_lines (confirmed: 54)")
    cx.extra["dispatch"]["regex_arms"] = arms
    return r


def _derives_from_strip(expr, scope_defs, depth=0):
    """True if expr is _strip_inline_comment(...) possibly followed by strip()/rstrip()/lstrip(), through local names."""
    if depth > 8:
        return False
    if isinstance(expr, ast.Call):
        if call_name(expr) == "_strip_inline_comment":
            return True
        if isinstance(expr.func, ast.Attribute) and expr.func.attr in ("strip", "rstrip", "lstrip") and not expr.args:
            return _derives_from_strip(expr.func.value, scope_defs, depth + 1)
        return False
    if isinstance(expr, ast.Name):
        ds = scope_defs.get(expr.id)
        if not ds:
            return False
        return all(isinstance(d, ast.expr) and _derives_from_strip(d, scope_defs, depth + 1) for d in ds)
    return False


def _inline(expr, assigns, depth=0):
    """textual inlining of single-assignment names defined in the same loop body"""
    if depth > 6:
        return norm(expr)

    class T(ast.NodeTransformer):
        def visit_Name(self, n):
            if n.id in assigns and isinstance(n.ctx, ast.Load):
                return ast.parse(_inline(assigns[n.id], {k: v for k, v in assigns.items() if k != n.id}, depth + 1), mode="eval").body
            return n

    return norm(T().visit(ast.parse(norm(expr), mode="eval").body))


NOOP_NODES = {
    # IR statements that legitimately produce no firmware text, with the reason (confirmed by reading the emitter)
    ("LCDBacklight", "no-backlight-pin"): "a parallel LCD wired without a backlight pin has nothing to switch",
    ("LCDBrightness", "no-backlight-pin"): "brightness needs the PWM backlight pin; without one (or on I2C) there is nothing to drive",
    ("LCDMessage", "no-text"): "message() with neither top nor bottom prints nothing",
    ("LedFlashPattern", "empty-pattern"): "an empty pattern has no steps",
}


def _noop_reason(cname, kw, dlabel):
    if cname == "LCDBacklight" and dlabel == "parallel":
        return "no-backlight-pin"
    if cname == "LCDBrightness" and dlabel in ("parallel", "i2c"):
        return "no-backlight-pin"
    if cname == "LCDMessage" and kw.get("top") is None and kw.get("bottom") is None:
        return "no-text"
    if cname == "LedFlashPattern" and kw.get("pattern") == []:
        return "empty-pattern"
    return None


_EXT_CACHE = {}


def _extent_worker(chunk):
    pm = mod(PARSER)
    out = []
    for q, lines in chunk:
        try:
            o = dl.Interp(pm).call(pm.func(q), [list(lines), 1])
            val = o.value
            if o.kind == "return" and isinstance(val, tuple):
                val = tuple(val)
            out.append(((q, lines), o.kind, val, None))
        except dl.Unsupported as e:
            out.append(((q, lines), None, None, f"{q} left the evaluable subset: {e}"))
    return out


def rule_extent(cx, rid):
    """block extents decided by evaluation: _collect_block / _collect_if_structure / _collect_try_structure are run (checker's
    interpreter) on every line sequence up to length four over an alphabet of line kinds after a header at column 4, and
    compared with Python's block structure: a block is the run of following code lines indented deeper than its header;
    blank and comment-only lines, at any column, neither end nor start anything; continuation headers belong to the
    statement only at exactly the header's column"""
    pm = mod(PARSER)
    r = cx.rule(rid, "for every sequence of up to 3 lines (4 over the core kinds) (deeper / same-level / shallower code, blank, blanks-only, comments at columns 0, 4 and 8, code with a trailing comment, continuation headers at three columns) after a header at column 4: the collectors return exactly the code lines Python assigns to the statement and resume at the first code line after it", floor=3000, exhaustive=True)
    K = {"D": "        y = 1", "S": "    z = 2", "U": "w = 3", "B": "", "W": "      ", "C0": "# c", "C4": "    # c", "C8": "        # c", "T": "        y = 2  # c"}
    CONT = {"if": {"EF": "    elif q:", "EL": "    else:  # alt", "EL0": "else:", "EL8": "        else:"}, "try": {"X": "    except Exception:", "XB": "    except:  # any", "X0": "except Exception:", "X8": "        except Exception:"}}
    is_code = lambda l_: bool(l_.split("#")[0].strip())
    try:
        tabw = dl.Interp(pm).call(pm.func("_indent_of"), ["\tx"]).value
    except dl.Unsupported as e:
        raise AnalysisError(f"_indent_of left the evaluable subset: {e}")
    if not isinstance(tabw, int) or tabw < 1:
        raise AnalysisError(f"_indent_of gives a tab the width {tabw!r}")

    def indent(l_):
        n_ = 0
        for ch in l_:
            if ch == " ":
                n_ += 1
            elif ch == "\t":
                n_ += tabw
            else:
                break
        return n_
    # the same kinds for tab-indented sources (header one tab deep)
    KT = {"D": "\t\ty = 1", "S": "\tz = 2", "U": "w = 3", "B": "", "C0": "# c", "C4": "\t# c", "M": "\t    y = 3"}
    CONT_T = {"if": {"EF": "\telif q:", "EL": "\telse:", "EL8": "\t\telse:"}, "try": {"X": "\texcept Exception:", "X8": "\t\texcept Exception:"}}

    def ref_block(lines, start):
        base, i, code = indent(lines[start]), start + 1, []
        while i < len(lines):
            if not is_code(lines[i]):
                i += 1
                continue
            if indent(lines[i]) <= base:
                break
            code.append(i)
            i += 1
        return code, i

    def next_code(lines, i):
        while i < len(lines) and not is_code(lines[i]):
            i += 1
        return i

    def ref_struct(lines, start, heads):
        base = indent(lines[start])
        code, i = ref_block(lines, start)
        code = [start] + code
        while True:
            j = next_code(lines, i)
            if j < len(lines) and indent(lines[j]) == base and lines[j].split("#")[0].strip().split(" ")[0].rstrip(":") in heads:
                more, i = ref_block(lines, j)
                code += [j] + more
                continue
            return code, j

    def run(fn, lines, start):
        return _EXT_CACHE[(fn.name, tuple(lines))]

    plan = (("_collect_block", "    while go:", dict(K), None),
            ("_collect_if_structure", "    if p:", {**{k_: K[k_] for k_ in ("D", "S", "U", "B", "C0", "C4")}, **CONT["if"]}, ("elif", "else")),
            ("_collect_try_structure", "    try:", {**{k_: K[k_] for k_ in ("D", "S", "U", "B", "C0", "C4")}, **CONT["try"]}, ("except",)))

    plan = plan + (("_collect_block", "\twhile go:", dict(KT), None),
                   ("_collect_if_structure", "\tif p:", {**KT, **CONT_T["if"]}, ("elif", "else")),
                   ("_collect_try_structure", "\ttry:", {**KT, **CONT_T["try"]}, ("except",)))

    def seqs_of(alphabet):
        names = sorted(alphabet)
        if any("\t" in v_ for v_ in alphabet.values()):
            return list(itertools.chain(*[itertools.product(names, repeat=L) for L in range(0, 4)]))
        core_names = [k_ for k_ in names if k_ in ("D", "S", "B", "C4", "C0", "U", "EF", "EL", "X")]
        return list(itertools.chain(*[itertools.product(names, repeat=L) for L in range(0, 4)], itertools.product(core_names, repeat=4)))

    jobs = [(q, tuple(["x = 0", header] + [alphabet[k_] for k_ in seq])) for q, header, alphabet, _h in plan for seq in seqs_of(alphabet)]
    _EXT_CACHE.clear()
    import concurrent.futures as cf
    from sa.core import workers as _workers
    workers = _workers(12)
    chunks = [jobs[i::workers] for i in range(workers)]
    try:
        with cf.ProcessPoolExecutor(max_workers=workers) as ex:
            parts = list(ex.map(_extent_worker, chunks))
    except Exception:
        parts = [_extent_worker(c_) for c_ in chunks]
    for part in parts:
        for key_, kind_, val_, err_ in part:
            if err_:
                raise AnalysisError(err_)
            _EXT_CACHE[key_] = dl.Outcome(kind_, val_)
    n_bad = {}
    for q, header, alphabet, heads in plan:
        fn = pm.func(q)
        for seq in seqs_of(alphabet):
            if True:
                lines = ["x = 0", header] + [alphabet[k_] for k_ in seq]
                start = 1
                out = run(fn, lines, start)
                if heads is None:
                    want_code, want_i = ref_block(lines, start)
                    want_next = next_code(lines, want_i)
                else:
                    want_code, want_next = ref_struct(lines, start, heads)
                ok = out.kind == "return" and isinstance(out.value, (tuple, list)) and len(out.value) == 2 and isinstance(out.value[0], list) and isinstance(out.value[1], int)
                why = f"-> {out!r}"
                if ok:
                    blk, ret_i = out.value
                    first = start if heads is not None else start + 1
                    contiguous = blk == lines[first:first + len(blk)]
                    got_code = [first + k_ for k_, l_ in enumerate(blk) if is_code(l_)]
                    got_next = next_code(lines, ret_i) if 0 <= ret_i <= len(lines) else -1
                    ok = contiguous and got_code == want_code and got_next == want_next and first + len(blk) <= max(ret_i, first)
                    why = f"returns code lines {got_code} and resumes at line {got_next}; Python's structure: code lines {want_code}, next statement at line {want_next}"
                if ok:
                    r.ok(None)
                else:
                    n_bad[q] = n_bad.get(q, 0) + 1
                    if n_bad[q] <= 2:
                        kinds = [k_ for k_ in seq]
                        tag = "comment-or-blank-line" if any(k_ in ("B", "W", "C0", "C4", "C8") for k_ in kinds) else "continuation-header" if any(k_ in CONT["if"] or k_ in CONT["try"] for k_ in kinds) else "code-lines"
                        r.fail(f"{q}/extent[{tag}]", (pm, fn), f"{q} on {lines[1:]!r}: {why}", detail={"lines": lines, "start": start})
                    else:
                        r.stat.obligations += 1
                        r.stat.failed += 1
    return r


def rule_decl_siblings(cx, rid):
    """sibling cross-check: the declaration regexes of all device kinds are one pattern instantiated with the class name"""
    import re as _re
    pm = mod(PARSER)
    r = cx.rule(rid, "the device-declaration regexes (RE_*_DECL) are the same pattern for every device kind up to the class name: a declaration form accepted for one kind (nested parentheses, keyword arguments, spacing) is accepted for all, so no kind's declarations fall through to the generic assignment arm and vanish as devices", floor=8)
    pats = {}
    for name, node in pm.consts.items():
        if _re.fullmatch(r"RE_\w+_DECL", name):
            v = lit.try_ev(node, pm)
            if isinstance(v, lit.Regex):
                m_ = _re.search(r"=\\s\*([A-Za-z_]\w*)\\s\*\\\(", v.pattern)
                cls_ = m_.group(1) if m_ else None
                shape = v.pattern.replace(cls_, "@", 1) if cls_ else v.pattern
                pats[name] = (shape, cls_, node.lineno, v.flags_src)
    if len(pats) < 8:
        raise AnalysisError(f"only {len(pats)} declaration regexes recognised (confirmed: 10)")
    shapes = {}
    for name, (shape, cls_, ln, fl) in pats.items():
        shapes.setdefault((shape, fl), []).append(name)
    major = max(shapes, key=lambda k: len(shapes[k]))
    for name, (shape, cls_, ln, fl) in sorted(pats.items()):
        r.check((shape, fl) == major, f"{name}/same-shape-as-siblings", (pm.rel, ln), f"{name} is `{shape}` while {len(shapes[major])} sibling declaration regexes are `{major[0]}`: declarations of {cls_} are recognised under different conditions than those of the other devices", sample=name)
    return r


def rule_emit(cx, rid):
    """the emitter half of "no statement disappears": every IR statement contributes text, control flow keeps its header"""
    from . import c06
    em = mod("transpile/emitter.py")
    cx.consulted(em)
    cls, _fields = pe.ir_classes()
    r = cx.rule(rid, "every IR statement (each action class in each field variant) contributes firmware text, except a fixed table of no-ops; control-flow statements keep their header and every condition even when a body is empty (`while wait(): pass`, `elif c: pass`)", floor=300, exhaustive=True)
    eb = em.func("_emit_block")
    import re as _re
    for label, setup, loop, kw in c06.programs_for_schema("quick"):
        if kw or not (setup or loop):
            continue
        body = setup if setup else loop
        node, pre = body[-1], body[:-1]
        cname = type(node).__name__
        if cname.endswith("Decl") and cname != "VarDecl":
            continue
        a = pe.emit_program(setup=body if setup else [], loop=body if loop else [])
        if a.raised:
            r.ok(None)
            continue
        b = pe.emit_program(setup=pre if setup else [], loop=pre if loop else [])
        if a.text != b.text:
            r.ok(None)
            continue
        m_ = _re.match(r"(\w+)\[([^\]]*)\]", label)
        dlabel = m_.group(2) if m_ else ""
        fields = {f: getattr(node, f) for f in vars(node)}
        why = _noop_reason(cname, fields, dlabel)
        if why and (cname, why) in NOOP_NODES:
            r.ok(f"{cname}: no-op allowed [{why}]")
        else:
            r.fail(f"{cname}/emits-nothing", (em, eb), f"{label}: the statement is accepted by the emitter but contributes no firmware text - it disappears without a diagnostic")
    S = cls["Sleep"]
    CB = cls["ConditionalBranch"]
    shapes = [
        ("while/empty-body", [cls["WhileLoop"](condition="H_cw", body=[])], ["H_cw"]),
        ("for/empty-body", [cls["ForRangeLoop"](var_name="i", count="H_cn", body=[])], ["H_cn"]),
        ("if/empty-body", [cls["IfStatement"](branches=[CB(condition="H_ca", body=[])], else_body=[])], ["H_ca"]),
        ("if/empty-body-with-else", [cls["IfStatement"](branches=[CB(condition="H_ca", body=[])], else_body=[S(ms=3)])], ["H_ca", "delay(3)"]),
        ("elif/empty-body", [cls["IfStatement"](branches=[CB(condition="H_ca", body=[S(ms=1)]), CB(condition="H_cb", body=[]), CB(condition="H_cc", body=[S(ms=2)])], else_body=[S(ms=3)])], ["H_ca", "H_cb", "H_cc", "delay(1)", "delay(2)", "delay(3)"]),
        ("elif/first-empty", [cls["IfStatement"](branches=[CB(condition="H_ca", body=[]), CB(condition="H_cb", body=[S(ms=2)])], else_body=[])], ["H_ca", "H_cb", "delay(2)"]),
        ("try/empty-handler", [cls["TryStatement"](try_body=[S(ms=1)], handlers=[cls["CatchClause"](exception=None, target=None, body=[])])] if "TryStatement" in cls else None, ["delay(1)"]),
        ("else/nested-if-then-more", [cls["IfStatement"](branches=[CB(condition="H_ca", body=[S(ms=1)])], else_body=[cls["IfStatement"](branches=[CB(condition="H_cb", body=[S(ms=2)])], else_body=[S(ms=4)]), S(ms=5), S(ms=6)])], ["H_ca", "H_cb", "delay(1)", "delay(2)", "delay(4)", "delay(5)", "delay(6)"]),
        ("while/nested-empty", [cls["WhileLoop"](condition="H_cw", body=[cls["IfStatement"](branches=[CB(condition="H_ca", body=[])], else_body=[])])], ["H_cw", "H_ca"]),
    ]
    # every if/elif/else chain of up to three branches with every subset of bodies empty
    import itertools as _it
    for nb in (1, 2, 3):
        for empt in _it.product((False, True), repeat=nb + 1):
            brs, must_ = [], []
            for i_ in range(nb):
                brs.append(CB(condition=f"H_c{i_}", body=([] if empt[i_] else [S(ms=11 + i_)])))
                must_.append(f"H_c{i_}")
                if not empt[i_]:
                    must_.append(f"delay({11 + i_})")
            if not empt[nb]:
                must_.append("delay(19)")
            shapes.append((f"if-chain[{''.join('e' if e_ else 'b' for e_ in empt[:nb])}|else={'e' if empt[nb] else 'b'}]", [cls["IfStatement"](branches=brs, else_body=([] if empt[nb] else [S(ms=19)]))], must_))
    fd = cls["FunctionDef"]
    for label, nodes, must in shapes:
        if nodes is None:
            continue
        for place in ("setup", "loop", "function"):
            try:
                if place == "setup":
                    res = pe.emit_program(setup=nodes)
                elif place == "loop":
                    res = pe.emit_program(loop=nodes)
                else:
                    res = pe.emit_program(setup=[cls["ExprStmt"](expr="wait()")], functions=[fd(name="wait", params=[], body=nodes, return_type="void")])
            except Exception as e:
                raise AnalysisError(f"emit of {label} in {place} not evaluable: {e}")
            if res.raised:
                r.ok(f"{label}@{place}: rejected ({res.raised})")
                continue
            missing = [m for m in must if m not in res.text]
            r.check(not missing, f"{label}@{place}/kept", (em, eb), f"{label} in {place}: {missing} no longer appear in the firmware - a control-flow statement (or its condition) was dropped", sample=f"{label}@{place}")
    return r


def run(cx):
    pm = mod(PARSER)
    cx.consulted(pm)
    cx.explanation = (
        "every statement of a corpus (DSL statements, meaningless lines, Python statements outside the DSL) is parsed in four contexts and must be refused or leave a trace in the IR; block extents by exhaustive evaluation of the collectors on all short line sequences against Python's block structure; _indent_of and _strip_inline_comment as decision lists; spacing and trailing-comment variants certified by Python's tokenizer on four canonical scripts; string contents, multi-line statements, re-specialisation, def-above-declaration and all-devices-declared scripts; regex language analysis (keyword boundaries); no module state. Layouts outside the evaluated families are not decided."
    )
    rule_account(cx, "C07")

    # ---- C07-STRIP ---------------------------------------------------------------------------
    # (that a trailing comment never hides a block header or changes a statement is decided by evaluation: C07-SPACING re-writes
    # every line of four canonical scripts - headers at the top level, in the main loop and in functions - with trailing
    # comments and demands the same IR)
    cx.extra["header_regexes"] = sorted(header_regexes(pm))

    rule_extent(cx, "C07-EXTENT")

    # ---- C07-INDENT --------------------------------------------------------------------------
    r = cx.rule("C07-INDENT", "_indent_of counts leading blanks: space = 1, tab = a fixed positive width, stops at the first other character (evaluated as a decision list over all strings up to length 4 over {space, tab, x, #})", floor=200, exhaustive=True)
    io = pm.func("_indent_of")
    it = dl.Interp(pm)
    try:
        tabw = it.call(io, ["\t"]).value
    except dl.Unsupported as e:
        raise AnalysisError(f"_indent_of left the evaluable subset: {e}")
    r.check(isinstance(tabw, int) and tabw >= 1, "_indent_of/tab-width-positive", (pm, io), f"_indent_of('\\t') = {tabw!r}")
    bad = 0
    for n in range(0, 5):
        for tup in itertools.product(" \tx#", repeat=n):
            s = "".join(tup)
            want = 0
            for ch in s:
                if ch == " ":
                    want += 1
                elif ch == "\t":
                    want += tabw if isinstance(tabw, int) else 0
                else:
                    break
            got = dl.Interp(pm).call(io, [s])
            if got.kind == "return" and got.value == want:
                r.ok(None)
            else:
                bad += 1
                if bad <= 2:
                    r.fail("_indent_of/counts-leading-blanks", (pm, io), f"_indent_of({s!r}) = {got!r}, expected {want}")

    # ---- C07-LINEFLOW ------------------------------------------------------------------------
    # decided by evaluation: what stands inside string literals (brackets, #, backslashes, quotes, colons) never changes how
    # the script is cut into statements; a parenthesised statement spread over several physical lines is the known limitation;
    # a function specialised for two call signatures is parsed from the same block both times
    r = cx.rule("C07-LINEFLOW", "the statement structure follows the lines of the script: string contents (brackets, #, backslash, quotes, colon, `while True:` inside a string) never move or drop a statement; a function re-parsed for a second call signature has the same body structure as the first (comments, blank lines and nested blocks included); a parenthesised statement spread over several physical lines is translated or refused", floor=12)
    pf = pm.func("parse")
    from .. import pe as _pe
    head_ = "from Reduino.Communication import SerialMonitor\nfrom Reduino.Actuators import Led\nmon = SerialMonitor(9600)\nled = Led(13)\nx = 1\n"
    for label, text in (("open-bracket", "a ( b"), ("close-bracket", "a ) b"), ("square", "[x"), ("brace", "{"), ("hash", "a # b"), ("backslash", "a \\\\ b"), ("colon", "while True:"), ("quote", "it's"), ("keyword", "def f():"), ("semicolon", "a; b"), ("triple", "abc")):
        lit_ = repr(text)
        src = head_ + f"mon.write({lit_})\nled.on()\nwhile True:\n    mon.write({lit_})\n    led.off()\n"
        try:
            _it, out = _pe.parse_source(src)
        except dl.Unsupported as e:
            raise AnalysisError(f"parse() left the evaluable subset on a string-content script: {e}")
        if out.kind != "return":
            r.check(out.value == "ValueError", f"lines/string-content[{label}]", (pm, pf), f"a string containing {text!r}: parse() raises {out.value}")
            continue
        kinds_s = [type(n_).__name__ for n_ in out.value.setup_body if not type(n_).__name__.endswith("Decl")]
        kinds_l = [type(n_).__name__ for n_ in out.value.loop_body]
        r.check(kinds_s == ["SerialWrite", "LedOn"] and kinds_l == ["SerialWrite", "LedOff"], f"lines/string-content[{label}]", (pm, pf), f"`mon.write({lit_})` followed by a device call, before and inside the main loop: setup statements {kinds_s}, loop statements {kinds_l}; the text inside the string changed how the script is cut into statements", sample=f"string {text!r}")
    # multi-line statement (known limitation)
    src = head_ + "led.blink(\n    100,\n    3)\nwhile True:\n    x = x + 1\n"
    _it, out = _pe.parse_source(src)
    okm = out.kind != "return" or any(type(n_).__name__ == "LedBlink" for n_ in out.value.setup_body)
    r.check(okm, "parse/physical-lines", (pm, pf), "statement boundaries are physical lines: `led.blink(` / `100,` / `3)` spread over three lines is accepted and the call vanishes (parenthesised multi-line statements and docstring bodies are dispatched line by line)")
    # re-specialisation parses the same block
    body_ = "    # leading comment\n    w = v\n\n    if w > 1:\n        # inner\n        w = w - 1\n    else:\n        w = w + 1\n    return w\n"
    src = "def shape(v):\n" + body_ + "while True:\n    a = shape(2)\n    b = shape(2.5)\n"
    _it, out = _pe.parse_source(src)
    if out.kind != "return":
        r.fail("_parse_function/kept-source=block", (pm, pf), f"a function called with two signatures is rejected with {out.value}")
    else:
        def skel(nodes):
            return [(type(n_).__name__, [skel(getattr(b_, "body", [])) for b_ in getattr(n_, "branches", [])], skel(getattr(n_, "else_body", None) or []), skel(getattr(n_, "body", None) or []) if not hasattr(n_, "branches") else []) for n_ in nodes]
        sk = [skel(list(f_.body)) for f_ in out.value.functions if f_.name == "shape"]
        r.check(len(sk) == 2 and sk[0] == sk[1], "_parse_function/kept-source=block", (pm, pf), f"`shape` specialised for int and float has body structures {sk}: the second overload was parsed from a different text than the first")

    # ---- C07-GUARD-SHARED --------------------------------------------------------------------
    # decided by evaluation: a helper function may be defined above the declaration of the device it uses (Python resolves the
    # name when the function runs); the call inside it must be bound to the device kind the name is declared with
    r = cx.rule("C07-GUARD-SHARED", "a device call inside a helper function is translated the same whether the def stands above or below the device declaration (the name is resolved when the function runs): for every device kind the function body parsed from `def act(): dev.method()` / `dev = Device(...)` equals the body parsed with the declaration first - a call on a declared device never disappears or turns into another device's command", floor=9)
    from .. import bindeval as _be
    for dev_, decl_, call_ in (("Led", "dev = Led(13)", "dev.on()"), ("Servo", "dev = Servo(9)", "dev.write(90)"), ("Buzzer", "dev = Buzzer(8)", "dev.stop()"), ("LCD", "dev = LCD(i2c_addr=0x27)", "dev.clear()"),
                               ("Potentiometer", "dev = Potentiometer('A0')", "x = dev.read()"), ("Button", "dev = Button(7)", "x = dev.is_pressed()"), ("RGBLed", "dev = RGBLed(9, 10, 11)", "dev.off()"),
                               ("DCMotor", "dev = DCMotor(2, 4, 9)", "dev.stop()"), ("SerialMonitor", "dev = SerialMonitor(9600)", "dev.write(1)")):
        before = _be.IMPORTS + f"def act():\n    {call_}\n{decl_}\nwhile True:\n    act()\n"
        after = _be.IMPORTS + f"{decl_}\ndef act():\n    {call_}\nwhile True:\n    act()\n"
        try:
            ra, rb = _pe.parse_source(before)[1], _pe.parse_source(after)[1]
        except dl.Unsupported as e:
            raise AnalysisError(f"parse() left the evaluable subset on the def-before-declaration script of {dev_}: {e}")
        if rb.kind != "return":
            raise AnalysisError(f"the reference script (declaration first) of {dev_} is rejected with {rb.value}")
        fb = [repr(f_.body) for f_ in rb.value.functions]
        fa = [repr(f_.body) for f_ in ra.value.functions] if ra.kind == "return" else None
        okd = (ra.kind != "return" and ra.value == "ValueError") or fa == fb
        r.check(okd, f"def-before-declaration[{dev_}]", (pm, pf), f"`def act(): {call_}` written above `{decl_}`: the function body is {fa if fa is not None else 'rejected with ' + str(ra.value)}; with the declaration first it is {fb}", sample=f"{dev_}: same body")

    # ---- C07-KEYWORD -------------------------------------------------------------------------
    r = cx.rule("C07-KEYWORD", "every keyword/identifier a parser regex spells out as literal letters (import, from, while, target, method names ...) ends at a token boundary: what may follow cannot be an identifier character, so `important = 1` is never taken for an import and skipped", floor=70)
    pats = []
    for name, node in pm.consts.items():
        v = lit.try_ev(node, pm)
        if isinstance(v, lit.Regex):
            pats.append((name, v.pattern, (pm.rel, node.lineno)))
    for n in ast.walk(pm.tree):
        if isinstance(n, ast.Call) and call_name(n) in ("re.match", "re.search", "re.fullmatch", "re.compile", "re.sub", "re.split", "re.findall", "re.finditer") and n.args and pm.enclosing_func(n) is not None:
            v = lit.try_ev(n.args[0], pm)
            if isinstance(v, str):
                pats.append((f"{pm.qualname_of(pm.enclosing_func(n))}:{v[:30]}", v, (pm, n)))
    for name, pat, where in pats:
        try:
            kb = rxa.keyword_boundaries(pat)
        except rxa.RxUnsupported as e:
            raise AnalysisError(f"regex {name} uses a construct the boundary analysis does not model: {e}")
        r.check(not kb, f"{name}/keyword-boundary[{','.join(k for k, _ in kb)}]", where, f"regex {name} accepts {', '.join(repr(k) + ' followed by an identifier character' for k, _ in kb)}: a longer identifier starting with that word is taken for the keyword", sample=name)
    # the rule must be able to fire: a known-bad pattern is analysed on every run
    if not rxa.keyword_boundaries(r"^\s*(?:from\s+[\w.]+\s+)?import\s*.*$") or rxa.keyword_boundaries(r"^\s*(?:from\s+[\w.]+\s+)?import\s+.*$"):
        raise AnalysisError("keyword-boundary analysis lost its positive/negative control")
    cx.extra["regexes_analysed"] = len(pats)

    # ---- C07-COMMENT -------------------------------------------------------------------------
    depth = 7 if os.environ.get("VERIF_TIER") == "thorough" else 5
    r = cx.rule("C07-COMMENT", f"_strip_inline_comment cuts exactly at the first `#` that is outside a string literal (and nowhere else), evaluated as a decision list over every well-formed line up to length {depth} over the alphabet {{' \" # \\ x space}}", floor=2000, exhaustive=True)
    sic = pm.func("_strip_inline_comment")

    def ref(t):
        q, i = None, 0
        while i < len(t):
            c = t[i]
            if q:
                if c == "\\":
                    i += 2
                    continue
                if c == q:
                    q = None
            else:
                if c == "\\":
                    return None
                if c in "'\"":
                    q = c
                elif c == "#":
                    return t[:i].rstrip()
            i += 1
        return None if q else t

    it = dl.Interp(pm)
    n_bad = 0
    for L in range(0, depth + 1):
        for tup in itertools.product("'\"#\\x ", repeat=L):
            t = "".join(tup)
            if "'''" in t or '"""' in t:
                continue
            want = ref(t)
            if want is None:
                continue   # not a well-formed single line (unterminated string / stray backslash)
            it.steps = 0
            try:
                out = it.call(sic, [t])
            except dl.Unsupported as e:
                raise AnalysisError(f"_strip_inline_comment left the evaluable subset: {e}")
            if out.kind == "return" and out.value == want:
                r.ok(None)
            else:
                n_bad += 1
                if n_bad <= 3:
                    r.fail(f"strip_inline_comment/{'cut-inside-string-or-missed' if '#' in t else 'changed-comment-free-line'}", (pm, sic), f"_strip_inline_comment({t!r}) -> {out!r}, Python's tokenizer gives {want!r}", detail={"line": t})
                else:
                    r.stat.obligations += 1
                    r.stat.failed += 1

    # ---- C07-PURE ----------------------------------------------------------------------------
    from . import c10
    c10.rule_global_state(cx, "C07-PURE", [pm], floor=1, only={"_collect_block", "_collect_if_structure", "_collect_try_structure", "_indent_of", "_strip_inline_comment", "parse", "_parse_simple_lines", "_parse_function"})

    # ---- C07-EMIT ----------------------------------------------------------------------------
    rule_emit(cx, "C07-EMIT")
    rule_decl_siblings(cx, "C07-DECL-SIBLINGS")

    # ---- C07-ARM-SHADOW ----------------------------------------------------------------------
    # decided by evaluation: a call on a declared device is bound to that device's command whatever other kinds of devices the
    # script declares (several kinds share method names: read, write, on, off, stop, blink, fade ...)
    r = cx.rule("C07-ARM-SHADOW", "a method call is translated by the arm of the device kind its receiver was declared with: for every device method (maximal call shape) the IR node built with every other device kind declared in the same script equals the node built with that device alone - no arm for another kind's method of the same name captures or drops the call", floor=30)
    from .. import bindeval as _be2
    from ..src import func_params as _fp
    from . import c08 as _c08
    tasks_, meta_ = [], []
    for cls_ in sorted(_c08.HOST):
        hfile, hcls, hfn = _c08.HOST[cls_]
        if cls_.endswith("Decl") or hcls is None or hcls not in _be2.DECLARE:
            continue
        hm_ = mod(hfile)
        cx.consulted(hm_)
        params = _fp(hm_.func(f"{hcls}.{hfn}"))[1:]
        if any(p_[1] in ("vararg", "kwarg") for p_ in params):
            continue
        posable = tuple(p_[0] for p_ in params if p_[1] in ("pos", "posonly") and p_[0] not in _c08.HOST_ONLY)
        kws = tuple(sorted(p_[0] for p_ in params if p_[1] == "kwonly" and p_[0] not in _c08.HOST_ONLY))
        order = tuple(p_[0] for p_ in params)
        src_, desc_ = _be2.build(cls_, hcls, hfn, list(posable), len(posable), list(kws), list(order))
        others = "".join(v_.replace("dev =", f"other_{k_.lower()} =", 1) + "\n" for k_, v_ in sorted(_be2.DECLARE.items()) if k_ != hcls)
        lines_ = src_.split("\n")
        at = next(i_ for i_, l_ in enumerate(lines_) if l_.startswith("dev = "))
        crowded = "\n".join(lines_[:at] + others.rstrip("\n").split("\n") + lines_[at:])
        meta_.append((cls_, hcls, hfn, src_, crowded))

    def _node_of(src__, cls__):
        _it, o_ = pe.parse_source(src__)
        if o_.kind != "return":
            return ("raise", o_.value)
        found = [n_ for n_ in _be2._find(list(o_.value.setup_body) + list(o_.value.loop_body), cls__, []) if getattr(n_, "name", "dev") == "dev"]
        stray = [type(n_).__name__ + ":" + str(getattr(n_, "name", "")) for n_ in list(o_.value.setup_body) if not type(n_).__name__.endswith("Decl") and type(n_).__name__ not in (cls__, "VarDecl", "VarAssign")]
        return ("nodes", [repr(n_) for n_ in found], stray)

    for cls_, hcls, hfn, alone, crowded in meta_:
        try:
            na, nc = _node_of(alone, cls_), _node_of(crowded, cls_)
        except dl.Unsupported as e:
            raise AnalysisError(f"parse() left the evaluable subset on the crowded script of {cls_}: {e}")
        r.check(na == nc, f"method-owner[{hcls}.{hfn}]", (pm, pm.func("parse")), f"`dev.{hfn}(...)` on a {hcls}: alone the script yields {str(na)[:160]}; with every other device kind declared as well it yields {str(nc)[:160]}", sample=f"{hcls}.{hfn}")

    # ---- C07-SPACING -------------------------------------------------------------------------
    from .. import spacing
    r = cx.rule("C07-SPACING", "optional spacing inside a line never changes the IR: every statement of three canonical scripts is re-spaced token by token in nine ways (no blank after a keyword, blank before a call parenthesis, inside brackets, around the dot, before the colon, operators tight, double blanks, tabs, trailing blanks; Python's tokenizer certifies the token stream is unchanged) and parse() is partially evaluated on each variant", floor=150, exhaustive=True)
    psl = pm.func("_parse_simple_lines")
    seen = set()
    for nm, i, sk, k, v, ref_kind, same, raised, _err in spacing.evaluate():
        if ref_kind != "return":
            raise AnalysisError(f"the canonical script `{nm}` is no longer accepted by parse()")
        key = f"spacing[{sk}/{k}]"
        if same:
            r.ok(None if key in seen else f"{sk}: {k}")
            seen.add(key)
        else:
            canon = spacing.SCRIPTS[nm].split("\n")[i].strip()
            r.fail(key, (pm, psl), f"`{v.strip()}` (script `{nm}`) {'raises ' + raised if raised else 'is parsed to a different program'} than `{canon}`: the two lines are the same Python token stream", detail={"script": nm, "line": i, "variant": v})

"""C10 - transpilation is a deterministic, stateless function of the source text."""
from __future__ import annotations

import ast

from .. import dl
from ..core import AnalysisError
from ..src import Locals, call_name, dotted, mod, norm, stmt_key, walk_local, all_package_files

FILES = ["transpile/parser.py", "transpile/emitter.py", "transpile/ast.py", "__init__.py"]

MUTATORS = {"append", "extend", "add", "update", "setdefault", "pop", "clear", "insert", "remove", "discard",
            "popitem", "sort", "reverse", "appendleft", "send", "__setitem__", "move_to_end", "subtract"}
SET_RETURNING_METHODS = {"union", "intersection", "difference", "symmetric_difference", "copy"}
ORDER_FREE_CONSUMERS = {"sorted", "len", "set", "frozenset", "any", "all", "sum", "min", "max", "bool", "isinstance"}
NONDET_CALLS = {"id", "hash", "random.random", "random.randint", "random.choice", "random.shuffle", "time.time",
                "time.monotonic", "time.perf_counter", "time.time_ns", "uuid.uuid4", "uuid.uuid1", "os.getpid",
                "os.urandom", "datetime.now", "datetime.datetime.now", "datetime.utcnow", "os.getenv", "object",
                "os.listdir", "os.scandir", "glob.glob", "secrets.token_hex", "getpass.getuser", "platform.node"}
NONDET_ATTRS = {"os.environ", "sys.argv", "sys.flags", "sys.hash_info"}
CACHE_DECOS = {"lru_cache", "cache", "functools.lru_cache", "functools.cache", "cached_property", "functools.cached_property"}


def _ann_is_set(ann) -> bool:
    if ann is None:
        return False
    s = norm(ann)
    return s in ("set", "frozenset", "Set", "FrozenSet") or s.startswith(("set[", "Set[", "frozenset[", "FrozenSet[", "typing.Set[", "AbstractSet[", "MutableSet["))


class SetTyping:
    """Local set-typedness inference for one module (see DESIGN §5 C10-SETITER)."""

    def __init__(self, m, set_fields, set_keys):
        self.m = m
        self.set_fields = set_fields   # dataclass attributes annotated Set[...]
        self.set_keys = set_keys       # ctx keys that hold sets
        self._locals = {}
        self._ann = {}

    def locals_of(self, fn):
        l = self._locals.get(fn)
        if l is None:
            l = Locals(fn)
            self._locals[fn] = l
        return l

    def name_is_set(self, name: ast.Name, depth=0) -> bool:
        fn = self.m.enclosing_func(name)
        while fn is not None:
            l = self.locals_of(fn)
            # parameter annotated as a set
            for a in list(fn.args.posonlyargs) + list(fn.args.args) + list(fn.args.kwonlyargs):
                if a.arg == name.id:
                    return _ann_is_set(a.annotation)
            defs = l.defs.get(name.id)
            if defs:
                # annotated assignment?
                ann = self._ann.get(fn)
                if ann is None:
                    ann = {n.target.id for n in walk_local(fn, include_self=False)
                           if isinstance(n, ast.AnnAssign) and isinstance(n.target, ast.Name) and _ann_is_set(n.annotation)}
                    self._ann[fn] = ann
                if name.id in ann:
                    return True
                exprs = [d for d in defs if isinstance(d, ast.expr)]
                if exprs and len(exprs) == len(defs):
                    return all(self.is_set(d, depth + 1) for d in exprs)
                return False
            fn = self.m.enclosing_func(fn)
        v = self.m.consts.get(name.id)
        if v is not None:
            return self.is_set(v, depth + 1)
        return False

    def is_set(self, n, depth=0) -> bool:
        if depth > 12:
            return False
        if isinstance(n, (ast.Set, ast.SetComp)):
            return True
        if isinstance(n, ast.Call):
            cn = call_name(n)
            if cn in ("set", "frozenset"):
                return True
            if isinstance(n.func, ast.Attribute):
                a = n.func.attr
                if a in ("get", "setdefault", "pop") and len(n.args) == 2 and self.is_set(n.args[1], depth + 1):
                    return True
                if a in ("get", "setdefault") and n.args and isinstance(n.args[0], ast.Constant) and n.args[0].value in self.set_keys:
                    return True
                if a in SET_RETURNING_METHODS and self.is_set(n.func.value, depth + 1):
                    return True
                if a in ("keys",):
                    return False
            if cn == "getattr" and len(n.args) == 3 and self.is_set(n.args[2], depth + 1):
                return True
            if cn == "getattr" and len(n.args) >= 2 and isinstance(n.args[1], ast.Constant) and n.args[1].value in self.set_fields:
                return True
            return False
        if isinstance(n, ast.BinOp) and isinstance(n.op, (ast.BitOr, ast.BitAnd, ast.Sub, ast.BitXor)):
            return self.is_set(n.left, depth + 1) or self.is_set(n.right, depth + 1)
        if isinstance(n, ast.IfExp):
            return self.is_set(n.body, depth + 1) or self.is_set(n.orelse, depth + 1)
        if isinstance(n, ast.Name):
            return self.name_is_set(n, depth)
        if isinstance(n, ast.Subscript) and isinstance(n.slice, ast.Constant) and n.slice.value in self.set_keys:
            return True
        if isinstance(n, ast.Attribute) and n.attr in self.set_fields:
            return True
        return False


def _body_order_insensitive(body) -> bool:
    """A loop body whose effect cannot depend on iteration order: only tests, constant returns,
    raises, set insertions and continue."""
    for st in body:
        if isinstance(st, ast.If):
            if not (_body_order_insensitive(st.body) and _body_order_insensitive(st.orelse)):
                return False
        elif isinstance(st, ast.Return):
            if st.value is not None and not isinstance(st.value, ast.Constant):
                return False
        elif isinstance(st, (ast.Raise, ast.Continue, ast.Pass)):
            continue
        elif isinstance(st, ast.Expr) and isinstance(st.value, ast.Call) and isinstance(st.value.func, ast.Attribute) and st.value.func.attr in ("add", "discard", "update"):
            continue
        elif isinstance(st, ast.Expr) and isinstance(st.value, ast.Constant):
            continue
        else:
            return False
    return True


def run(cx):
    cx.explanation = (
        "set-typedness inference + search for order-sensitive consumers of set-typed values, inventory of "
        "module-level mutable state and its writers, mutable defaults, caching decorators, nondeterminism sources; "
        "covers every function of transpile/ and Reduino/__init__.py"
        " Since round 10: a corpus of scripts is transpiled repeatedly and in two orders inside one simulated process (module-level tables are shared objects, functools caches keep their memo, += / |= update containers in place) and every text must equal the script's text in a fresh process; set-order probes use names that tie under case / leading-zero / underscore-insensitive keys."
    )
    mods = [mod(f) for f in FILES]
    for m in mods:
        cx.consulted(m)
    # dataclass fields annotated as sets (ast.py) and ctx keys initialised with set()
    set_fields = set()
    for c in mods[2].classes.values():
        for st in c.body:
            if isinstance(st, ast.AnnAssign) and isinstance(st.target, ast.Name) and _ann_is_set(st.annotation):
                set_fields.add(st.target.id)
    set_keys = set()
    pm = mods[0]
    for n in ast.walk(pm.tree):
        if isinstance(n, ast.Dict):
            for k, v in zip(n.keys, n.values):
                if isinstance(k, ast.Constant) and isinstance(k.value, str) and isinstance(v, (ast.Set, ast.SetComp)) or (
                        isinstance(k, ast.Constant) and isinstance(k.value, str) and isinstance(v, ast.Call) and call_name(v) in ("set", "frozenset")):
                    set_keys.add(k.value)
        if isinstance(n, ast.Call) and isinstance(n.func, ast.Attribute) and n.func.attr in ("setdefault", "get") and len(n.args) == 2 \
                and isinstance(n.args[0], ast.Constant) and isinstance(n.args[0].value, str) \
                and (isinstance(n.args[1], (ast.Set, ast.SetComp)) or (isinstance(n.args[1], ast.Call) and call_name(n.args[1]) in ("set", "frozenset"))):
            set_keys.add(n.args[0].value)
        if isinstance(n, ast.Assign) and len(n.targets) == 1 and isinstance(n.targets[0], ast.Subscript) and isinstance(n.targets[0].slice, ast.Constant) \
                and isinstance(n.targets[0].slice.value, str) and isinstance(n.value, ast.Call) and call_name(n.value) in ("set", "frozenset"):
            set_keys.add(n.targets[0].slice.value)
    if len(set_keys) < 8 or "var_declared" not in set_keys:
        raise AnalysisError(f"set-typed ctx keys no longer recognised ({sorted(set_keys)})")
    cx.extra["set_typed_ctx_keys"] = sorted(set_keys)
    cx.extra["set_typed_fields"] = sorted(set_fields)

    # ---- C10-SETITER -------------------------------------------------------------------------
    r = cx.rule("C10-SETITER", "no set-typed value reaches an order-sensitive consumer (for/list()/tuple()/join/comprehension/unpacking/pop/next(iter)); sorted(), len(), membership, set-building are order-free", floor=10)
    for m in mods:
        st_ = SetTyping(m, set_fields, set_keys)
        for n in ast.walk(m.tree):
            fnq = lambda x: m.qualname_of(m.enclosing_func(x)) if m.enclosing_func(x) is not None else "<module>"
            if isinstance(n, (ast.For, ast.AsyncFor)) and st_.is_set(n.iter):
                ok = _body_order_insensitive(n.body)
                r.check(ok, f"{fnq(n)}/for-over-set[{norm(n.iter)[:50]}]", (m, n), f"`for {norm(n.target)} in {norm(n.iter)}` iterates a set and its body has order-dependent effects; output order would follow PYTHONHASHSEED", sample=f"{fnq(n)}: for over {norm(n.iter)[:40]} (order-free body)")
            elif isinstance(n, (ast.ListComp, ast.GeneratorExp, ast.DictComp)):
                for g in n.generators:
                    if st_.is_set(g.iter):
                        par = m.parent.get(n)
                        free = isinstance(par, ast.Call) and call_name(par) in ORDER_FREE_CONSUMERS and (par.args and par.args[0] is n)
                        r.check(free, f"{fnq(n)}/comprehension-over-set[{norm(g.iter)[:50]}]", (m, n), f"an ordered comprehension draws from the set {norm(g.iter)}", sample=f"{fnq(n)}: comprehension over {norm(g.iter)[:40]} into {call_name(par) if isinstance(par, ast.Call) else '?'}")
            elif isinstance(n, ast.SetComp):
                for g in n.generators:
                    if st_.is_set(g.iter):
                        r.ok(f"{fnq(n)}: set-comprehension over {norm(g.iter)[:40]}")
            elif isinstance(n, ast.Call):
                cn = call_name(n)
                if cn in ("list", "tuple", "enumerate", "zip", "iter", "next", "dict.fromkeys", "reversed", "map", "filter") and n.args and any(st_.is_set(a) for a in n.args):
                    r.fail(f"{fnq(n)}/{cn}-of-set[{norm(n.args[0])[:50]}]", (m, n), f"{cn}() materialises a set in hash order")
                elif isinstance(n.func, ast.Attribute) and n.func.attr == "join" and n.args and st_.is_set(n.args[0]):
                    r.fail(f"{fnq(n)}/join-of-set[{norm(n.args[0])[:50]}]", (m, n), "str.join over a set")
                elif isinstance(n.func, ast.Attribute) and n.func.attr in ("extend", "writelines") and n.args and st_.is_set(n.args[0]):
                    r.fail(f"{fnq(n)}/extend-with-set[{norm(n.args[0])[:50]}]", (m, n), "list.extend with a set")
                elif isinstance(n.func, ast.Attribute) and n.func.attr == "pop" and not n.args and st_.is_set(n.func.value):
                    # allowed only under a dominating len(s) == 1 test
                    guarded = False
                    from ..flow import lexical_conds
                    want = f"len({norm(n.func.value)}) == 1"
                    guarded = any(c == want and tv for c, tv in lexical_conds(m, n))   # a conjunct of a dominating test, not a disjunct
                    r.check(guarded, f"{fnq(n)}/set-pop[{norm(n.func.value)}]", (m, n), "set.pop() picks an arbitrary element", sample=f"{fnq(n)}: {norm(n.func.value)}.pop() under len==1")
                elif cn in ORDER_FREE_CONSUMERS and n.args and st_.is_set(n.args[0]):
                    r.ok(f"{fnq(n)}: {cn}({norm(n.args[0])[:40]})")
            elif isinstance(n, ast.Assign) and isinstance(n.targets[0], (ast.Tuple, ast.List)) and st_.is_set(n.value):
                r.fail(f"{fnq(n)}/unpack-set", (m, n), "tuple-unpacking a set")
            elif isinstance(n, ast.Starred) and st_.is_set(n.value):
                r.fail(f"{fnq(n)}/star-set", (m, n), "*-expansion of a set")
            elif isinstance(n, ast.FormattedValue) and st_.is_set(n.value):
                r.fail(f"{fnq(n)}/format-set", (m, n), "a set is formatted into text")

    rule_global_state(cx, "C10-GLOBAL-STATE", mods)

    # ---- C10-PROBE ---------------------------------------------------------------------------
    rule_probe(cx, "C10-PROBE")
    rule_interleave(cx, "C10-INTERLEAVE")

    # ---- C10-SOURCES -------------------------------------------------------------------------
    r = cx.rule("C10-SOURCES", "no nondeterministic or environment-dependent source (id/hash/random/time/environ/uuid/listdir) feeds the transpiler", floor=100)
    for m in mods[:3]:
        for n in ast.walk(m.tree):
            if isinstance(n, ast.Call):
                cn = call_name(n) or ""
                if cn in NONDET_CALLS or cn.split(".")[0] in ("random", "uuid", "secrets", "time", "datetime"):
                    r.fail(f"{m.rel.split('/')[-1]}/{cn}", (m, n), f"call to {cn}() in the transpiler")
                else:
                    r.ok(None)
            elif isinstance(n, ast.Attribute) and (dotted(n) or "") in NONDET_ATTRS:
                r.fail(f"{m.rel.split('/')[-1]}/{dotted(n)}", (m, n), f"reads {dotted(n)}")


class ProbeSet(set):
    """a set whose iteration order is chosen by the checker: whatever consumes it without sorting shows the order"""

    def __init__(self, items, descending=False):
        super().__init__(items)
        self._desc = descending

    def __iter__(self):
        return iter(sorted(set.__iter__(self), reverse=self._desc))


def rule_probe(cx, rid):
    """emit() as a function of its input only: set-typed inputs in two iteration orders give the same text, emitting the
    same Program twice gives the same text, and no emitter code stores into an IR node"""
    from .. import l2, pe
    em = mod("transpile/emitter.py")
    am = mod("transpile/ast.py")
    cx.consulted(em)
    cx.consulted(am)
    cls, fields = pe.ir_classes()
    r = cx.rule(rid, "the firmware text does not depend on the iteration order of the sets a Program carries (helpers, measured sensors), emitting one Program object twice yields the same text (emit() does not consume or mark its input), and the emitter never assigns an attribute of an IR node", floor=4)

    def build(desc):
        # (names that only differ by case, leading zeros or an underscore: an ordering key that identifies them leaves their
        # relative order to the set's iteration order)
        SENSORS = ("front", "back", "left", "Left", "LEFT", "s1", "s01", "s001", "s_1", "S1")
        us = [l2.decl_node("Ultrasonic", name=n_) for n_ in SENSORS]
        sv = [cls["ServoDecl"](name="s1", pin=9), cls["ServoDecl"](name="s2", pin=10)]
        loop = [cls["VarAssign"](name="d", expr=f"__redu_ultrasonic_measure_{n_}()") for n_ in SENSORS]
        kw = dict(setup_body=us + sv, loop_body=loop, target_port=None, global_decls=[cls["VarDecl"](name="d", c_type="float", expr="0", global_scope=True)], functions=[])
        for fname, ann, _d in fields["Program"]:
            if fname in ("helpers", "ultrasonic_measurements"):
                items = {"helpers": ["list", "len"], "ultrasonic_measurements": list(SENSORS)}[fname]
                # the parser hands over sets: probe both iteration orders
                kw[fname] = ProbeSet(items, descending=desc)
        try:
            return cls["Program"](**kw)
        except pe.IRRejected as e:
            raise AnalysisError(f"Program refuses the probe: {e}")

    texts = []
    for desc in (False, True):
        prog = build(desc)
        it = pe._interp(em)
        try:
            o1 = it.call(em.func("emit"), [prog])
            o2 = pe._interp(em).call(em.func("emit"), [prog])
        except dl.Unsupported as e:
            raise AnalysisError(f"emit() left the evaluable subset: {e}")
        if o1.kind != "return" or o2.kind != "return":
            raise AnalysisError(f"emit() raises on the probe program: {o1!r} / {o2!r}")
        r.check(o1.value == o2.value, f"emit/same-Program-twice[{'descending' if desc else 'ascending'}]", (em, em.func("emit")), "emitting the same Program object a second time gives different firmware: emit() marks or consumes its input (second difference: " + next((f"{a!r} vs {b!r}" for a, b in zip(o1.value.split(chr(10)), o2.value.split(chr(10))) if a != b), "length") + ")")
        texts.append(o1.value)
    diff = next((f"{a!r} vs {b!r}" for a, b in zip(texts[0].split(chr(10)), texts[1].split(chr(10))) if a != b), None)
    r.check(texts[0] == texts[1], "emit/independent-of-set-iteration-order", (em, em.func("emit")), f"the firmware differs when the Program's sets are iterated in another order ({diff}): output would follow PYTHONHASHSEED")
    # interleaving: a sketch's text does not depend on which scripts were transpiled before it in the same process.  The
    # class-level attributes of the emitter's own classes are evaluated once per process (as at import) and shared by all
    # later evaluations, so anything a library-heavy program leaves behind in them shows in the next program's text
    led = [cls["LedDecl"](name="led", pin=13), cls["LedOn"](name="led")]
    heavy = [cls["ServoDecl"](name="s1", pin=9), cls["LCDDecl"](name="l0", cols=16, rows=2, interface="i2c", i2c_addr=39),
             cls["LCDDecl"](name="l1", cols=16, rows=2, interface="parallel", rs=12, en=11, d4=5, d5=4, d6=3, d7=2), l2.decl_node("Ultrasonic", name="u"), l2.decl_node("Button", name="b")]

    def prog_of(setup):
        return cls["Program"](setup_body=list(setup), loop_body=[], target_port=None, global_decls=[], helpers=set(), functions=[], ultrasonic_measurements=set())

    for k_ in [k_ for k_ in dl.Interp._SYNTH if k_[0] == em.rel]:
        del dl.Interp._SYNTH[k_]          # a fresh import of the emitter
    try:
        alone = pe._interp(em).call(em.func("emit"), [prog_of(led)])
        pe._interp(em).call(em.func("emit"), [prog_of(heavy)])
        after = pe._interp(em).call(em.func("emit"), [prog_of(led)])
    except dl.Unsupported as e:
        raise AnalysisError(f"emit() left the evaluable subset: {e}")
    if alone.kind != "return" or after.kind != "return":
        raise AnalysisError(f"emit() raises on the interleaving probe: {alone!r} / {after!r}")
    diff = next((f"{b!r} (alone: {a!r})" for a, b in zip(alone.value.split(chr(10)) + [""] * 400, after.value.split(chr(10)) + [""] * 400) if a != b), None)
    r.check(alone.value == after.value, "emit/independent-of-earlier-programs", (em, em.func("emit")), f"an LED-only sketch emitted after a servo/LCD sketch differs from the same sketch emitted first: {diff} - state survives between emit() calls")
    # structural twin: no store into a node attribute anywhere in the emitter
    ir_field_names = {f[0] for fl in fields.values() for f in fl}
    n_stores = 0
    for q, fn in em.funcs.items():
        for n in walk_local(fn, include_self=False):
            if isinstance(n, (ast.Assign, ast.AugAssign, ast.AnnAssign)):
                for t in (n.targets if isinstance(n, ast.Assign) else [n.target]):
                    if isinstance(t, ast.Attribute) and isinstance(t.value, ast.Name) and t.value.id in ("node", "ast", "program", "decl", "fn", "branch", "stmt", "child"):
                        n_stores += 1
                        r.fail(f"{q}/stores-into-node[{t.value.id}.{t.attr}]", (em, n), f"`{stmt_key(n)}` writes an attribute of an IR node: the Program handed to emit() is changed by emitting it")
    r.ok(f"{len(em.funcs)} emitter functions scanned for node stores")
    return r


def rule_global_state(cx, rid, mods, floor=40, only=None):
    """only: qualname prefixes - report state only where one of these functions writes/reads it (purity of the named mechanism)"""
    pm = mods[0]
    r = cx.rule(rid, "no module-level mutable state is written (or can be written) by parse()/emit(): no empty module-level containers/iterators, no stores through module-level tables, no global/func-attribute rebinding, no mutable defaults, no caches of impure results", floor=floor)
    state_mods = mods + ([mod("toolchain/pio.py")] if "parse" in pm.funcs else [])
    for m in state_mods:
        mutable_globals = {}
        for name, v in m.consts.items():
            kind = None
            if isinstance(v, (ast.Dict, ast.List, ast.Set, ast.ListComp, ast.DictComp, ast.SetComp)):
                empty = (isinstance(v, ast.Dict) and not v.keys) or (isinstance(v, (ast.List, ast.Set)) and not v.elts)
                kind = "empty-container" if empty else "table"
            elif isinstance(v, ast.Call):
                cn = call_name(v) or ""
                if cn in ("re.compile", "frozenset", "tuple", "str", "int", "float", "TypeVar", "typing.TypeVar", "namedtuple", "collections.namedtuple", "Union", "Optional"):
                    kind = None
                elif cn in ("dict", "list", "set", "collections.OrderedDict", "OrderedDict") and not v.args and not v.keywords:
                    kind = "empty-container"
                elif cn in ("dict", "list", "set"):
                    kind = "table"
                elif cn in m.funcs and not any(isinstance(x, (ast.Yield, ast.YieldFrom)) for x in ast.walk(m.funcs[cn])):
                    # built once at import by a function of the module (`_invert_registry()`): a table like a
                    # comprehension; the who-may-mutate rules below still apply to it
                    kind = "table"
                else:
                    kind = "stateful-object"
            if kind:
                mutable_globals[name] = kind
        # class-level mutable attributes of plain (non-dataclass) classes are module-level state under another name
        for cname_, cnode_ in m.classes.items():
            is_dc = any((dotted(d_.func if isinstance(d_, ast.Call) else d_) or "").split(".")[-1] == "dataclass" for d_ in cnode_.decorator_list)
            for st_ in cnode_.body:
                val_ = st_.value if isinstance(st_, (ast.Assign, ast.AnnAssign)) else None
                tgt_ = (st_.targets[0] if isinstance(st_, ast.Assign) else st_.target) if val_ is not None else None
                if val_ is None or not isinstance(tgt_, ast.Name):
                    continue
                mutable_ = isinstance(val_, (ast.Dict, ast.List, ast.Set, ast.ListComp, ast.DictComp, ast.SetComp)) or (isinstance(val_, ast.Call) and (call_name(val_) or "") in ("dict", "list", "set", "collections.OrderedDict", "OrderedDict", "defaultdict", "collections.defaultdict", "deque", "collections.deque"))
                if not mutable_ or is_dc:
                    continue
                # a table that no method of the class (and no function of the module) mutates is a constant
                mutated_ = False
                for q_, fn_ in m.funcs.items():
                    for c_ in ast.walk(fn_):
                        if isinstance(c_, ast.Call) and isinstance(c_.func, ast.Attribute) and c_.func.attr in MUTATORS and isinstance(c_.func.value, ast.Attribute) and c_.func.value.attr == tgt_.id:
                            mutated_ = True
                        if isinstance(c_, (ast.Assign, ast.AugAssign, ast.Delete)):
                            for t_ in (c_.targets if isinstance(c_, (ast.Assign, ast.Delete)) else [c_.target]):
                                if isinstance(t_, ast.Subscript) and isinstance(t_.value, ast.Attribute) and t_.value.attr == tgt_.id:
                                    mutated_ = True
                if only is None or mutated_:
                    r.check(not mutated_, f"{m.rel.split('/')[-1]}:{cname_}.{tgt_.id}/class-level-mutable-attribute", (m, st_), f"`{cname_}.{tgt_.id}` is one container shared by every instance of {cname_} and it is mutated through instances: whatever one transpile() puts into it is still there for the next script in the process")
        scope = None
        if only is not None:
            # the named functions and everything they (transitively) call inside this module
            scope = {q_ for q_ in m.funcs if any(q_ == o or q_.startswith(o + ".") for o in only)}
            grew = True
            while grew:
                grew = False
                for q_ in list(scope):
                    for c_ in ast.walk(m.funcs[q_]):
                        if isinstance(c_, ast.Call) and isinstance(c_.func, ast.Name):
                            for cand in (c_.func.id, f"{q_}.{c_.func.id}", f"{q_.rsplit('.', 1)[0]}.{c_.func.id}"):
                                if cand in m.funcs and cand not in scope:
                                    scope.add(cand)
                                    grew = True

        def _in_scope(q_):
            return scope is None or q_ in scope or any(q_.startswith(o + ".") for o in scope)

        used_by_scope = None
        if only is not None:
            used_by_scope = set()
            for q_, fn_ in m.funcs.items():
                if _in_scope(q_):
                    used_by_scope |= {x.id for x in ast.walk(fn_) if isinstance(x, ast.Name)}
        for name, kind in mutable_globals.items():
            if used_by_scope is not None and name not in used_by_scope:
                continue
            if kind in ("empty-container", "stateful-object"):
                r.fail(f"{m.rel.split('/')[-1]}:{name}/module-level-{kind}", (m.rel, m.consts[name].lineno), f"module-level {kind} `{name}` can only serve as state shared between calls (other scripts, other instances)")
            else:
                r.ok(f"{m.rel.split('/')[-1]}:{name} literal table")
        for q, fn in m.funcs.items():
            if not _in_scope(q):
                continue
            loc = Locals(fn)
            shadow = set(loc.defs) | loc.params
            for n in walk_local(fn, include_self=False):
                if isinstance(n, (ast.Global,)):
                    r.fail(f"{q}/global[{','.join(n.names)}]", (m, n), "`global` rebinding of module state inside a function")
                tgt = None
                if isinstance(n, (ast.Assign, ast.AugAssign, ast.AnnAssign, ast.Delete)):
                    tgts = n.targets if isinstance(n, (ast.Assign, ast.Delete)) else [n.target]
                    for t in tgts:
                        for s in ast.walk(t):
                            if isinstance(s, (ast.Subscript, ast.Attribute)) and isinstance(s.ctx, (ast.Store, ast.Del)):
                                base = s.value
                                while isinstance(base, (ast.Subscript, ast.Attribute)):
                                    base = base.value
                                base = loc.resolve(base) if isinstance(base, ast.Name) and base.id in shadow else base
                                if isinstance(base, ast.Name) and base.id not in shadow and (base.id in mutable_globals or base.id in m.funcs or base.id in m.classes):
                                    r.fail(f"{q}/store-through[{base.id}]", (m, n), f"`{stmt_key(n)}` writes module-level object {base.id}")
                if isinstance(n, ast.Call):
                    if isinstance(n.func, ast.Attribute) and n.func.attr in MUTATORS:
                        base = n.func.value
                        while isinstance(base, (ast.Subscript, ast.Attribute)):
                            base = base.value
                        if isinstance(base, ast.Name) and base.id in shadow:
                            base = loc.resolve(base)
                            while isinstance(base, (ast.Subscript, ast.Attribute)):
                                base = base.value
                        if isinstance(base, ast.Name) and base.id not in shadow and base.id in mutable_globals:
                            r.fail(f"{q}/mutates[{base.id}].{n.func.attr}", (m, n), f"`{stmt_key(n)}` mutates module-level table {base.id}")
                    if call_name(n) == "next" and n.args and isinstance(n.args[0], ast.Name) and n.args[0].id not in shadow and n.args[0].id in m.consts:
                        r.fail(f"{q}/next[{n.args[0].id}]", (m, n), "draws from a module-level iterator/counter")
            # mutable defaults
            for d in list(fn.args.defaults) + [d for d in fn.args.kw_defaults if d is not None]:
                bad = isinstance(d, (ast.Dict, ast.List, ast.Set, ast.ListComp, ast.DictComp, ast.SetComp, ast.GeneratorExp)) or \
                    (isinstance(d, ast.Call) and (call_name(d) or "") not in ("tuple", "frozenset", "str", "int", "float", "bool", "bytes", "object", "re.compile"))     # itertools.count(), set(), a fresh object ...: one instance shared by all calls
                r.check(not bad, f"{q}/mutable-default", (m, d), "mutable default argument persists between calls", sample=None)
            for d in fn.decorator_list:
                dn = dotted(d.func if isinstance(d, ast.Call) else d) or ""
                if dn in CACHE_DECOS:
                    impure = any(isinstance(x, ast.Call) and (call_name(x) in mod("transpile/ast.py").classes) for x in walk_local(fn)) or \
                        any(isinstance(x, ast.Return) and isinstance(x.value, (ast.List, ast.Dict, ast.Set, ast.ListComp, ast.DictComp, ast.SetComp)) for x in walk_local(fn)) or \
                        any(a.arg in ("ctx", "env", "vars") for a in fn.args.args)
                    r.check(not impure, f"{q}/cache-decorator", (m, d), "memoisation of a function that returns mutable objects or depends on the per-parse context")
            r.ok(None)
    # parse() builds a fresh context
    if "parse" not in pm.funcs:
        return
    pf = pm.func("parse")
    ctx_def = Locals(pf).defs.get("ctx", [])
    ctx_src = ctx_def[0] if len(ctx_def) == 1 else None
    floc = Locals(pf)
    if isinstance(ctx_src, ast.Call) and isinstance(ctx_src.func, ast.Name) and ctx_src.func.id in pm.funcs and not ctx_src.args and not ctx_src.keywords:
        # a factory: `ctx = _new_parse_context()` whose only return is the dict (possibly through locals of the factory)
        fac = pm.funcs[ctx_src.func.id]
        floc = Locals(fac)
        rets = [n_ for n_ in walk_local(fac) if isinstance(n_, ast.Return)]
        ctx_src = rets[0].value if len(rets) == 1 else None

    def fresh_value(v, depth=0):
        """built anew on every call: literals, empty constructors, containers of such, locals defined once as such"""
        if depth > 6 or v is None:
            return False
        if isinstance(v, ast.Constant):
            return True
        if isinstance(v, ast.Dict):
            return all(k_ is not None and fresh_value(k_, depth + 1) for k_ in v.keys) and all(fresh_value(x, depth + 1) for x in v.values)
        if isinstance(v, (ast.List, ast.Set, ast.Tuple)):
            return all(fresh_value(x, depth + 1) for x in v.elts)
        if isinstance(v, ast.Call) and call_name(v) in ("set", "dict", "list") and not v.args and not v.keywords:
            return True
        if isinstance(v, ast.Name) and v.id not in floc.params:
            ds = floc.defs.get(v.id, [])
            return len(ds) == 1 and isinstance(ds[0], ast.expr) and fresh_value(ds[0], depth + 1)
        return False
    fresh = isinstance(ctx_src, (ast.Dict, ast.Name)) and fresh_value(ctx_src) and (isinstance(ctx_src, ast.Dict) or isinstance((floc.defs.get(ctx_src.id) or [None])[0], ast.Dict))
    r.check(fresh, "parse/fresh-ctx", (pm, pf), "parse() must build its context from a fresh dict literal whose values are fresh literals")


INTERLEAVE = {
    # label: script.  Each leaves something behind only if the transpiler keeps state: tracked list literals that are mutated,
    # helper names that shadow builtins, library-heavy sketches, sensors, plain sketches
    "list-literal-mutated": "xs = [1, 2, 3]\nxs.append(4)\nxs.remove(1)\ncount = len(xs)\nwhile True:\n    count = count + 1\n",
    "same-list-literal-read": "xs = [1, 2, 3]\nsteps = len(xs)\nwhile True:\n    steps = steps + 1\n",
    "helper-named-like-a-builtin": "def max(a, b):\n    return a\ndef abs(a):\n    return a\nwhile True:\n    m = max(1, 2)\n    n = abs(-3)\n",
    "builtins-on-literals": "from Reduino.Utils import sleep\nwhile True:\n    sleep(abs(-250))\n    sleep(max(10, 20))\n",
    "servo-and-displays": "from Reduino.Actuators import Servo\nfrom Reduino.Displays import LCD\nsv = Servo(9)\nl0 = LCD(i2c_addr=0x27)\nl1 = LCD(rs=12, en=11, d4=5, d5=4, d6=3, d7=2)\nwhile True:\n    sv.write(90)\n    l0.write(0, 0, 'a')\n    l1.write(0, 0, 'b')\n",
    "two-sensors": "from Reduino.Sensors import Ultrasonic\nfront = Ultrasonic(2, 3)\nback = Ultrasonic(4, 5)\nwhile True:\n    a = front.measure_distance()\n    b = back.measure_distance()\n",
    "led-only": "from Reduino.Actuators import Led\nled = Led(13)\nwhile True:\n    led.toggle()\n",
    "string-and-fstring": "name = 'ab'\nn = len(name)\nwhile True:\n    msg = f'{name}:{n}'\n",
}


def _fresh_import():
    for k_ in [k_ for k_ in dl.Interp._SYNTH if k_[0].startswith("transpile/")]:
        del dl.Interp._SYNTH[k_]


def rule_interleave(cx, rid):
    """transpilation as a function of the script only: inside ONE simulated process (module-level tables are shared objects,
    memoising decorators keep their memo, class-level attributes persist) every script of a corpus is transpiled, then all of
    them again in another order; each text must equal the text the script gets in a fresh process of its own"""
    from .. import pe
    pm, em = mod("transpile/parser.py"), mod("transpile/emitter.py")
    cx.consulted(pm)
    cx.consulted(em)
    r = cx.rule(rid, "a corpus of scripts (tracked list literals that are mutated / read, helpers named like builtins / builtins on literals, servo+LCD / sensors / LED-only sketches) transpiled one after the other in one simulated process (module-level tables and memo tables are shared objects across calls), twice and in two orders: every text equals the text of the same script transpiled alone in a fresh process", floor=16, exhaustive=True)

    def transpile(src, ms):
        _it, out = pe.parse_source(src, module_state=ms)
        if out.kind != "return":
            return ("rejected", str(out.value))
        o2 = pe.emit_prog(out.value, module_state=ms)
        return (o2.kind, o2.value)

    try:
        alone = {}
        for label, src in INTERLEAVE.items():
            _fresh_import()
            alone[label] = transpile(src, {})
        _fresh_import()
        ms = {}
        order1 = list(INTERLEAVE)
        order2 = list(reversed(order1))
        seq = []
        for label in order1 + order2 + order1[:2]:
            seq.append((label, transpile(INTERLEAVE[label], ms)))
    except dl.Unsupported as e:
        raise AnalysisError(f"the transpiler left the evaluable subset on the interleaving corpus: {e}")
    finally:
        _fresh_import()
    for i_, (label, got) in enumerate(seq):
        want = alone[label]
        if got == want:
            r.ok(f"{label}@{i_}")
            continue
        before = [l_ for l_, _g in seq[:i_]]
        if got[0] == "return" and want[0] == "return":
            diff = next((f"{b!r} (alone: {a!r})" for a, b in zip(want[1].split(chr(10)) + [""] * 500, got[1].split(chr(10)) + [""] * 500) if a != b), "?")
        else:
            diff = f"{got[0]}:{str(got[1])[:80]} (alone: {want[0]}:{str(want[1])[:80]})"
        r.fail(f"interleave[{label}]/same-text-as-alone", (pm, pm.func("parse")), f"script `{label}` transpiled after {before[-3:] or 'nothing'} in the same process differs from its text in a fresh process: {diff}", detail={"position": i_, "before": before})
    return r

"""Evaluator for *pure arithmetic kernels* of the emitted C++ (mini-IR of sa.cxx), with C semantics for the types the
templates use (int/long truncating division, float, bool).  It exists to check algebraic laws of an extracted formula on
a small complete domain - e.g. "the fade interpolation is a nearest-integer rounding of start + delta*i/steps for every
divisor 1..16 and every residue" - not to run sketches: I/O calls are recorded as events and have no semantics here."""
from __future__ import annotations

import struct

INT_TYPES = {"int", "long", "unsigned long", "unsigned int", "uint8_t", "byte", "size_t", "const int", "const long", "const unsigned long", "long long", "uint16_t", "int16_t", "unsigned char"}
FLOAT_TYPES = {"float", "double", "const float", "const double"}


class KernUnsupported(Exception):
    pass


class Ptr:
    """pointer into a heap buffer: `next + remove_index`"""
    __slots__ = ("buf", "off")

    def __init__(self, buf, off):
        self.buf, self.off = buf, off


class _Break(Exception):
    pass


class _Continue(Exception):
    pass


class _Return(Exception):
    def __init__(self, v):
        self.v = v


_C_ESC = {"n": "\n", "t": "\t", "r": "\r", "0": "\0", "\\": "\\", '"': '"', "'": "'", "a": "\a", "b": "\b", "f": "\f", "v": "\v", "?": "?"}


def _c_unescape(s):
    """the characters a C string literal denotes (clang keeps the source spelling)"""
    if "\\" not in s:
        return s
    out, i = [], 0
    while i < len(s):
        c = s[i]
        if c != "\\" or i + 1 >= len(s):
            out.append(c)
            i += 1
            continue
        d = s[i + 1]
        if d == "x":
            j = i + 2
            while j < len(s) and s[j] in "0123456789abcdefABCDEF":
                j += 1
            out.append(chr(int(s[i + 2:j] or "0", 16) & 0xFF))
            i = j
        elif d in "01234567":
            j = i + 1
            while j < len(s) and j < i + 4 and s[j] in "01234567":
                j += 1
            out.append(chr(int(s[i + 1:j], 8) & 0xFF))
            i = j
        else:
            out.append(_C_ESC.get(d, d))
            i += 2
    return "".join(out)


def f32(x):
    try:
        return struct.unpack("f", struct.pack("f", x))[0]
    except (OverflowError, struct.error):
        return float("inf") if x > 0 else float("-inf")


def conv(ty, v):
    ty = (ty or "").replace("const ", "").strip()
    if ty == "bool":
        return 1 if v else 0
    if ty in INT_TYPES or ("const " + ty) in INT_TYPES:
        if isinstance(v, float):
            if v != v or v in (float("inf"), float("-inf")):
                raise KernUnsupported("float->int of a non-finite value")
            v = int(v)      # truncation toward zero
        if ty.startswith("unsigned") or ty in ("uint8_t", "byte", "size_t", "uint16_t", "unsigned char"):
            bits = 8 if ty in ("uint8_t", "byte", "unsigned char") else 16 if ty in ("unsigned int", "uint16_t") else 32
            v %= (1 << bits)
        return int(v)
    if ty in ("float", "double"):
        return f32(float(v))
    if ty in ("String", "const String &", "String &"):
        return v if isinstance(v, str) else str(v)
    if ty == "char" and isinstance(v, int):
        return chr(v)
    return v


class Kern:
    def __init__(self, env=None, types=None, max_steps=200000):
        self.env = dict(env or {})
        self.types = dict(types or {})
        self.events = []
        self.call_hooks = {}      # name -> callable(args) giving the value of an input call (digitalRead, millis ...)
        self.steps = 0
        self.max_steps = max_steps
        self.record_defaults = {}  # type-name prefix -> factory of a default-constructed record
        self.heap_freed = set()   # ids of buffers released by delete[] (the objects are kept alive in heap_all)
        self.heap_all = []

    def tick(self):
        self.steps += 1
        if self.steps > self.max_steps:
            raise KernUnsupported("step budget exhausted")

    # ---- expressions -------------------------------------------------------------------------
    def ev(self, e):
        self.tick()
        t = e[0]
        if t == "lit":
            v = e[1]
            if isinstance(v, bool):
                return int(v)
            if isinstance(v, (int, float)):
                return v
            if isinstance(v, str):
                # string / character literal (clang keeps the quotes of string literals)
                return _c_unescape(v[1:-1]) if len(v) >= 2 and v[0] == '"' and v[-1] == '"' else v
            if v is None:
                return None             # nullptr
            raise KernUnsupported(f"literal {v!r}")
        if t == "var":
            if e[1] in self.env:
                return self.env[e[1]]
            if e[1] in ("HIGH", "LOW"):
                return 1 if e[1] == "HIGH" else 0
            raise KernUnsupported(f"free variable {e[1]}")
        if t == "member":
            base = self.ev(e[1])
            if isinstance(base, dict) and e[2] in base:
                return base[e[2]]
            raise KernUnsupported(f"member {e[2]} of a non-record value")
        if t == "index":
            base, i_ = self.ev(e[1]), self.ev(e[2])
            if isinstance(base, Ptr) and isinstance(i_, int):
                base, i_ = base.buf, base.off + i_
            if isinstance(base, list) and id(base) in self.heap_freed:
                raise KernUnsupported("read of a freed buffer")
            if isinstance(base, (str, list)) and isinstance(i_, int):
                if 0 <= i_ < len(base):
                    return base[i_]
                if isinstance(base, str) and i_ == len(base):
                    return "\0"
                raise KernUnsupported(f"index {i_} outside a {len(base)}-element value")
            raise KernUnsupported("index of a non-sequence")
        if t == "cast":
            return conv(e[1], self.ev(e[2]))
        if t == "ctor" and len(e[2]) == 1:
            return conv(e[1], self.ev(e[2][0]))
        if t == "ctor" and len(e[2]) == 0 and (e[1] or "").startswith("String"):
            return ""
        if t == "init":
            return [self.ev(x_) for x_ in e[1]]
        if t == "sizeof" and len(e) >= 3 and e[1] == "sizeof":
            # element counts are computed as sizeof(array) / sizeof(array[0]): every scalar counts 4 bytes here
            if e[2] is not None:
                v_ = self.ev(e[2])
                return 4 * len(v_) if isinstance(v_, list) else 4
            return 4
        if t == "new":
            n_ = self.ev(e[2]) if e[2] is not None else 1
            if not isinstance(n_, int) or n_ < 0 or n_ > 100000:
                raise KernUnsupported(f"new[] of {n_!r} elements")
            buf = [0] * n_
            if e[4] is not None and e[4][0] == "init":
                for j_, x_ in enumerate(e[4][1][:n_]):
                    buf[j_] = self.ev(x_)
            self.heap_all.append(buf)
            return buf
        if t == "delete":
            b_ = self.ev(e[1])
            if b_ is None:
                return 0
            if isinstance(b_, Ptr):
                if b_.off != 0:
                    raise KernUnsupported("delete[] of a pointer into the middle of a buffer")
                b_ = b_.buf
            if not isinstance(b_, list):
                raise KernUnsupported("delete of a non-buffer")
            if id(b_) in self.heap_freed:
                raise KernUnsupported("double free")
            self.heap_freed.add(id(b_))
            return 0
        if t == "un" and e[1] == "&":
            tgt_ = e[2]
            if tgt_[0] == "var" and tgt_[1] in self.env:
                v_ = self.env[tgt_[1]]
                return ("&", id(v_)) if isinstance(v_, (dict, list)) else ("&", tgt_[1], id(self))
            raise KernUnsupported("address of a non-variable")
        if t == "un":
            a = self.ev(e[2])
            if e[1] == "-":
                return -a
            if e[1] == "+":
                return a
            if e[1] == "!":
                return 0 if a else 1
            raise KernUnsupported(f"unary {e[1]}")
        if t == "bin":
            op = e[1]
            if op == "&&":
                return 1 if (self.ev(e[2]) and self.ev(e[3])) else 0
            if op == "||":
                return 1 if (self.ev(e[2]) or self.ev(e[3])) else 0
            a, b = self.ev(e[2]), self.ev(e[3])
            return self.arith(op, a, b)
        if t == "cond":
            return self.ev(e[2]) if self.ev(e[1]) else self.ev(e[3])
        if t == "assign":
            tgt = e[2]
            if tgt[0] not in ("var", "member", "index"):
                raise KernUnsupported("assignment to a non-variable")
            v = self.ev(e[3])
            if e[1] != "=":
                v = self.arith(e[1][:-1], self.ev(tgt), v)
            return self._store(tgt, v)
        if t in ("pre", "post"):
            tgt = e[2]
            if tgt[0] not in ("var", "member", "index"):
                raise KernUnsupported("increment of a non-variable")
            old = self.ev(tgt)
            new = self._store(tgt, old + (1 if e[1] == "++" else -1))
            return old if t == "post" else new
        if t == "call":
            nm = e[1] if isinstance(e[1], str) else None
            args = [self.ev(a) for a in e[2]]
            if nm == "F" and len(args) == 1:
                return args[0]          # flash-string macro
            if nm == "abs" or nm == "fabs":
                return abs(args[0])
            if nm in ("min", "max"):
                return min(args) if nm == "min" else max(args)
            if nm == "constrain":
                return min(max(args[0], args[1]), args[2])
            if nm in ("round", "lround", "roundf"):
                a = args[0]
                return int(a + 0.5) if a >= 0 else -int(-a + 0.5)
            if nm is not None and callable(self.env.get(nm)):
                return self.env[nm](*args)
            self.events.append((nm, tuple(args)))
            if nm in self.call_hooks:
                return self.call_hooks[nm](tuple(args))
            if isinstance(nm, str) and nm.startswith("__redu_"):
                # a generated helper this evaluator was not given: its result would be invented (fail closed)
                raise KernUnsupported(f"call of helper {nm} whose body is not available")
            return 0
        if t == "mcall":
            args = [self.ev(a) for a in e[3]]
            recv = e[1]
            rv_ = None
            if recv[0] == "var" and isinstance(self.env.get(recv[1]), str):
                rv_ = self.env[recv[1]]
            elif recv[0] == "member":
                try:
                    rv_ = self.ev(recv)
                except KernUnsupported:
                    rv_ = None
            if isinstance(rv_, str):
                sv = rv_
                if e[2] == "length":
                    return len(sv)
                if e[2] == "substring":
                    a0 = max(0, min(len(sv), args[0]))
                    b0 = len(sv) if len(args) < 2 else max(0, min(len(sv), args[1]))
                    return sv[a0:b0] if a0 <= b0 else sv[b0:a0]
                if e[2] == "charAt":
                    return sv[args[0]] if 0 <= args[0] < len(sv) else "\0"
                raise KernUnsupported(f"String.{e[2]}")
            self.events.append((e[2], tuple(args)))
            return 0
        raise KernUnsupported(f"expression {t}")

    def _store(self, tgt, v):
        if tgt[0] == "index":
            base, i_ = self.ev(tgt[1]), self.ev(tgt[2])
            if isinstance(base, Ptr) and isinstance(i_, int):
                base, i_ = base.buf, base.off + i_
            if not isinstance(base, list) or not isinstance(i_, int):
                raise KernUnsupported("store through a non-buffer")
            if id(base) in self.heap_freed:
                raise KernUnsupported("write to a freed buffer")
            if not 0 <= i_ < len(base):
                raise KernUnsupported(f"write at index {i_} outside a {len(base)}-element buffer")
            base[i_] = v
            return v
        if tgt[0] == "var":
            v = conv(self.types.get(tgt[1]), v)
            self.env[tgt[1]] = v
            return v
        base = self.ev(tgt[1])
        if not isinstance(base, dict):
            raise KernUnsupported(f"store into member {tgt[2]} of a non-record value")
        v = conv((base.get("__types__") or {}).get(tgt[2]), v)
        base[tgt[2]] = v
        return v

    @staticmethod
    def arith(op, a, b):
        both_int = isinstance(a, int) and isinstance(b, int)
        if op in ("+", "-") and isinstance(a, (list, Ptr)) and isinstance(b, int):
            buf_, off_ = (a, 0) if isinstance(a, list) else (a.buf, a.off)
            return Ptr(buf_, off_ + (b if op == "+" else -b))
        if op == "+" and isinstance(b, (list, Ptr)) and isinstance(a, int):
            buf_, off_ = (b, 0) if isinstance(b, list) else (b.buf, b.off)
            return Ptr(buf_, off_ + a)
        if op in ("==", "!=") and (a is None or b is None or isinstance(a, (tuple, list)) or isinstance(b, (tuple, list))):
            same = (a is b) if isinstance(a, list) or isinstance(b, list) else (a == b)
            return int(same == (op == "=="))
        if isinstance(a, str) or isinstance(b, str):
            if op == "+" and isinstance(a, str) and isinstance(b, str):
                return a + b
            if op in ("==", "!=") and isinstance(a, str) and isinstance(b, str):
                return int((a == b) == (op == "=="))
            raise KernUnsupported(f"string operand of {op}")
        if op == "+":
            r = a + b
        elif op == "-":
            r = a - b
        elif op == "*":
            r = a * b
        elif op == "/":
            if b == 0:
                raise KernUnsupported("division by zero")
            if both_int:
                q = abs(a) // abs(b)
                return q if (a >= 0) == (b >= 0) else -q
            r = a / b
        elif op == "%":
            if not both_int or b == 0:
                raise KernUnsupported("% on non-integers or zero")
            q = abs(a) // abs(b)
            q = q if (a >= 0) == (b >= 0) else -q
            return a - q * b
        elif op in ("<", "<=", ">", ">=", "==", "!="):
            return int({"<": a < b, "<=": a <= b, ">": a > b, ">=": a >= b, "==": a == b, "!=": a != b}[op])
        else:
            raise KernUnsupported(f"operator {op}")
        return r if both_int else f32(r)

    # ---- statements --------------------------------------------------------------------------
    def block(self, body):
        for st in body:
            self.stmt(st)

    def stmt(self, st):
        self.tick()
        k = st["k"]
        if k == "block":
            self.block(st["body"])
        elif k == "decl":
            if st.get("static"):
                # function statics are initialised once and keep their value between calls of the same evaluator
                done = self.__dict__.setdefault("_statics_done", set())
                if st["name"] in done:
                    return
                done.add(st["name"])
            self.types[st["name"]] = st["type"]
            mk = next((f_ for p_, f_ in self.record_defaults.items() if (st["type"] or "").replace("const ", "").startswith(p_)), None)
            if mk is not None and (st["init"] is None or st["init"][0] == "ctor" and not st["init"][2]):
                self.env[st["name"]] = mk()
            elif st["init"] is not None:
                self.env[st["name"]] = conv(st["type"], self.ev(st["init"]))
            else:
                self.env[st["name"]] = 0
        elif k == "expr":
            self.ev(st["e"])
        elif k == "if":
            if self.ev(st["cond"]):
                self.block(st["then"])
            elif st["else"]:
                self.block(st["else"])
        elif k == "for":
            self.block(st["init"])
            while st["cond"] is None or self.ev(st["cond"]):
                try:
                    self.block(st["body"])
                except _Break:
                    break
                except _Continue:
                    pass
                if st["inc"] is not None:
                    self.ev(st["inc"])
        elif k == "while":
            first = bool(st.get("do"))
            while first or self.ev(st["cond"]):
                first = False
                try:
                    self.block(st["body"])
                except _Break:
                    break
                except _Continue:
                    pass
        elif k == "break":
            raise _Break()
        elif k == "continue":
            raise _Continue()
        elif k == "return":
            raise _Return(self.ev(st["e"]) if st["e"] is not None else None)
        else:
            raise KernUnsupported(f"statement {k}")


class CallKern(Kern):
    """Kern that also enters helper functions of a given table (template helpers calling each other); events are shared."""

    def __init__(self, fns, env=None, types=None, consts=None, max_steps=200000):
        super().__init__(env=env, types=types, max_steps=max_steps)
        self.fns = fns
        self.consts = dict(consts or {})
        self.env.update(self.consts)

    def ev(self, e):
        if e[0] == "call" and isinstance(e[1], str) and e[1] in self.fns:
            fn = self.fns[e[1]]
            args = [self.ev(a) for a in e[2]]
            sub = CallKern(self.fns, consts=self.consts, max_steps=self.max_steps)
            sub.events = self.events
            sub.call_hooks = self.call_hooks
            sub.record_defaults = self.record_defaults
            sub.heap_freed = self.heap_freed
            sub.heap_all = self.heap_all
            sub.steps = self.steps
            for (pn, pt), v in zip(fn["params"], args):
                base_t = (pt or "").replace("const ", "").replace("&", "").strip()
                sub.env[pn] = conv(base_t, v) if base_t in INT_TYPES | FLOAT_TYPES | {"bool", "String", "char"} else v
                sub.types[pn] = base_t
            ret = 0
            try:
                sub.block(fn["body"])
            except _Return as r_:
                ret = r_.v if r_.v is not None else 0
            self.steps = sub.steps
            return ret
        return super().ev(e)

"""E11 - whole-sketch evaluation.  A Reduino script is taken through the repository's own parse() and emit() (partial
evaluation in sa/dl.py), the emitted translation unit is parsed by clang (typed AST, never compiled to code, never linked
or run) and the mini IR of its file-scope variables, user functions, generated helpers, setup() and loop() is interpreted
by the checker's C evaluator (sa/ckern.py: C integer/float semantics, typed stores, tracked heap) against a scripted board:
analogRead/digitalRead/pulseIn values come from a schedule, millis() is a clock advanced by delay().  The result is the
event trace of the firmware (Serial prints, delays, pin writes ...) for setup() plus N passes of loop().

The oracle for a script is CPython's execution of the same script on recording stubs (the checker's own code and the
checker's own script: nothing of /repo is imported or run)."""
from __future__ import annotations

import json
import os
import shutil
import subprocess
import tempfile
from typing import Dict, List, Optional

from . import ckern, cxx, dl, l2, pe
from .core import AnalysisError
from .src import mod

_UNIT_CACHE: Dict[str, tuple] = {}

PRELUDE = "struct Exception {};\n"


def unit(text: str):
    """-> (functions: name -> mini-IR function (first definition with a body; templates by their pattern),
           globals: [(name, type, init expr | None)] in definition order)"""
    if text in _UNIT_CACHE:
        return _UNIT_CACHE[text]
    cxx._need()
    names = l2.global_decls(text)
    d = tempfile.mkdtemp(prefix="reduino-sa-")
    try:
        p = os.path.join(d, "tu.cpp")
        with open(p, "w") as fh:
            lines = text.split("\n")
            last_inc = max([i for i, l in enumerate(lines) if l.startswith("#include")] or [-1])
            fh.write("\n".join(lines[: last_inc + 1]) + "\n" + PRELUDE + "\n".join(lines[last_inc + 1:]))
        cp = subprocess.run([cxx.CLANG] + cxx.BASE + ["-Xclang", "-ast-dump=json", p], capture_output=True, text=True, timeout=180)
        if cp.returncode != 0:
            errs = [l_.split("tu.cpp:", 1)[-1] for l_ in cp.stderr.splitlines() if " error: " in l_]
            raise Uncompilable("; ".join(errs[:3]) or cp.stderr[-300:])
        doc = json.loads(cp.stdout)
    finally:
        shutil.rmtree(d, ignore_errors=True)
    fns, globs = {}, []
    for node in doc.get("inner", []) or []:
        k = node.get("kind")
        if k == "FunctionTemplateDecl":
            node = next((c for c in node.get("inner", []) if c.get("kind") == "FunctionDecl"), None)
            k = "FunctionDecl" if node else None
        if k == "FunctionDecl" and any(c.get("kind") == "CompoundStmt" for c in node.get("inner", []) or []):
            fns.setdefault(node.get("name"), []).append(cxx.to_function(node))
        elif k == "VarDecl" and node.get("name") in names and node.get("storageClass") != "extern":
            di = [x for x in node.get("inner", []) or [] if x.get("kind") not in ("FullComment",)]
            globs.append((node.get("name"), node.get("type", {}).get("qualType"), cxx.to_expr(di[0]) if di else None))
    _UNIT_CACHE[text] = (fns, globs)
    return fns, globs


class _Env(dict):
    """a function frame over the sketch's globals"""
    def __init__(self, glob):
        super().__init__()
        self.glob = glob

    def __contains__(self, k):
        return dict.__contains__(self, k) or k in self.glob

    def __getitem__(self, k):
        return dict.__getitem__(self, k) if dict.__contains__(self, k) else self.glob[k]

    def get(self, k, d=None):
        return self[k] if k in self else d

    def __setitem__(self, k, v):
        if dict.__contains__(self, k) or k not in self.glob:
            dict.__setitem__(self, k, v)
        else:
            self.glob[k] = v

    def declare(self, k):
        dict.__setitem__(self, k, 0)


class _Types(dict):
    def __init__(self, glob, env):
        super().__init__()
        self.glob, self.env_ = glob, env

    def get(self, k, d=None):
        if dict.__contains__(self, k):
            return dict.__getitem__(self, k)
        if dict.__contains__(self.env_, k):
            return d
        return self.glob.get(k, d)


def _rec(data=()):
    return {"data": list(data) if data else None, "size": len(data), "__types__": {"size": "size_t"}}


class Board:
    """scripted inputs: successive analogRead values, digitalRead values, pulseIn values; clock advanced by delay()"""
    def __init__(self, analog=(0,), digital=(0,), pulse=(0,)):
        self.analog, self.digital, self.pulse = list(analog), list(digital), list(pulse)
        self.na = self.nd = self.np = 0
        self.clock = 0

    @staticmethod
    def _take(vals, i):
        return vals[min(i, len(vals) - 1)]


class SketchKern(ckern.CallKern):
    def __init__(self, fns, glob, gtypes, shared):
        super().__init__(fns, max_steps=shared["max_steps"])
        self.glob, self.gtypes, self.shared = glob, gtypes, shared
        self.env = _Env(glob)
        self.types = _Types(gtypes, self.env)
        self.events = shared["events"]
        self.call_hooks = shared["hooks"]
        self.record_defaults = shared["records"]
        self.heap_freed = shared["freed"]
        self.heap_all = shared["heap"]
        self.fname = None

    def _enter(self, name, args):
        fn = self.fns[name]
        sig = getattr(name, "sig", None)
        if sig and len(self.shared["overloads"].get(name, ())) > 1:
            fn = next((f_ for f_ in self.shared["overloads"][name] if f_.get("type") == sig), fn)
        sub = SketchKern(self.fns, self.glob, self.gtypes, self.shared)
        sub.fname = name
        sub.steps = self.steps
        for (pn, pt), v in zip(fn["params"], args):
            byref = "&" in (pt or "")
            base_t = (pt or "").replace("const ", "").replace("&", "").strip()
            if isinstance(v, dict) and not byref:
                v = dict(v)
            sub.env.declare(pn)
            dict.__setitem__(sub.env, pn, ckern.conv(base_t, v) if base_t in ckern.INT_TYPES | ckern.FLOAT_TYPES | {"bool", "String", "char"} else v)
            dict.__setitem__(sub.types, pn, base_t)
        ret = 0
        try:
            sub.block(fn["body"])
        except ckern._Return as r_:
            ret = r_.v if r_.v is not None else 0
            rt = (fn.get("type") or "").split("(")[0].strip()
            if rt in ckern.INT_TYPES | ckern.FLOAT_TYPES | {"bool", "String"}:
                ret = ckern.conv(rt, ret)
        finally:
            for k_ in list(sub.__dict__.get("_static_names", ())):
                self.shared["statics"][(name, k_)] = dict.__getitem__(sub.env, k_)
        self.steps = sub.steps
        return ret

    def ev(self, e):
        if e[0] == "call" and isinstance(e[1], str) and e[1] in self.fns:
            self.tick()
            return self._enter(e[1], [self.ev(a) for a in e[2]])
        if e[0] == "assign" and e[1] == "=" and e[2][0] == "var":
            v = self.ev(e[3])
            if isinstance(v, dict):
                v = dict(v)                    # struct copy
            return self._store(e[2], v)
        return ckern.Kern.ev(self, e)

    def stmt(self, st):
        if st["k"] == "block" and st.get("catch"):
            return                             # no exception is ever thrown in the evaluated subset
        if st["k"] == "decl":
            nm = st["name"]
            if st.get("static"):
                self.__dict__.setdefault("_static_names", set()).add(nm)
                key = (self.fname, nm)
                if key in self.shared["statics"]:
                    self.env.declare(nm)
                    dict.__setitem__(self.env, nm, self.shared["statics"][key])
                    dict.__setitem__(self.types, nm, st["type"])
                    return
                self.env.declare(nm)
                st = dict(st, static=False)
            else:
                self.env.declare(nm)
            super().stmt(st)
            v = dict.__getitem__(self.env, nm)
            if isinstance(v, dict) and st["init"] is not None and st["init"][0] != "ctor":
                dict.__setitem__(self.env, nm, dict(v))
            return
        super().stmt(st)


def run(text: str, passes: int, board: Optional[Board] = None, max_steps: int = 400000):
    """-> (events, globals after the run, live heap buffer count per pass)"""
    fns_all, globs = unit(text)
    fns = {n: v[0] for n, v in fns_all.items() if n not in ("__redu_make_list",)}
    board = board or Board()
    events: List[tuple] = []

    def _delay(a):
        board.clock += int(a[0]) if a and isinstance(a[0], (int, float)) and a[0] > 0 else 0
        return 0

    def _analog(a):
        board.na += 1
        return Board._take(board.analog, board.na - 1)

    def _digital(a):
        board.nd += 1
        return Board._take(board.digital, board.nd - 1)

    def _pulse(a):
        board.np += 1
        return Board._take(board.pulse, board.np - 1)

    heap: List[list] = []

    def _make_list(*a):
        r_ = _rec(a)
        if r_["data"] is not None:
            heap.append(r_["data"])
        return r_

    shared = {"events": events, "hooks": {"delay": _delay, "analogRead": _analog, "digitalRead": _digital, "pulseIn": _pulse, "millis": lambda a: board.clock, "micros": lambda a: board.clock * 1000},
              "records": {"__redu_list": lambda: _rec([])}, "freed": set(), "heap": heap, "statics": {}, "max_steps": max_steps, "overloads": fns_all}
    glob = {"A0": 14, "A1": 15, "A2": 16, "A3": 17, "A4": 18, "A5": 19, "INPUT": 0, "OUTPUT": 1, "INPUT_PULLUP": 2, "LED_BUILTIN": 13,
            "__redu_make_list": _make_list}
    gtypes: Dict[str, str] = {}
    k = SketchKern(fns, glob, gtypes, shared)
    k.env = glob                # file scope
    k.types = gtypes
    live = []
    try:
        for name, ty, init in globs:
            gtypes[name] = ty
            mk = next((f_ for p_, f_ in shared["records"].items() if (ty or "").replace("const ", "").startswith(p_)), None)
            if init is None or (init[0] == "ctor" and not init[2]):
                glob[name] = mk() if mk else ("" if (ty or "").startswith("String") else 0)
            elif init[0] == "ctor" and (ty or "").split("<")[0] in ("LiquidCrystal", "LiquidCrystal_I2C", "Servo"):
                glob[name] = 0
            else:
                v = k.ev(init)
                glob[name] = dict(v) if isinstance(v, dict) else ckern.conv(ty, v)
        for phase in ["setup"] + ["loop"] * passes:
            if phase not in fns:
                raise AnalysisError(f"the emitted sketch has no {phase}()")
            events.append(("<" + phase + ">", ()))
            k._enter(phase, [])
            live.append(sum(1 for b in heap if id(b) not in shared["freed"]))
    except ckern.KernUnsupported as e:
        raise SketchUnsupported(str(e))
    return events, glob, live


class SketchUnsupported(Exception):
    pass


class Uncompilable(Exception):
    """clang rejects the emitted translation unit (against the mock core)"""


def emit_text(prog):
    em = mod(pe.EMITTER)
    it = pe._interp(em)
    try:
        out = it.call(em.func("emit"), [prog])
    except dl.Unsupported as e:
        raise AnalysisError(f"emit() left the evaluable subset: {e}")
    if out.kind != "return" or not isinstance(out.value, str):
        return None, out.value
    return out.value, None


def transpile(src: str):
    """script -> ('ok', sketch text) | ('rejected', exception name)"""
    try:
        _it, out = pe.parse_source(src)
    except dl.Unsupported as e:
        raise AnalysisError(f"parse() left the evaluable subset: {e}")
    if out.kind != "return":
        return "rejected", str(out.value)
    text, err = emit_text(out.value)
    if text is None:
        return "rejected", str(err)
    return "ok", text

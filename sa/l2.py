"""helpers shared by the rules that look at the emitted C++ (L2): fabricate a program around one IR node,
extract it with the partial evaluator, type check it and get the typed AST of setup()/loop()/helpers."""
from __future__ import annotations

import re
from typing import Dict, List, Optional, Tuple

from . import cxx, pe
from .core import AnalysisError

DECL_FOR = {
    "Led": "LedDecl", "RGBLed": "RGBLedDecl", "Servo": "ServoDecl", "DCMotor": "DCMotorDecl", "Buzzer": "BuzzerDecl",
    "LCD": "LCDDecl", "Button": "ButtonDecl", "Potentiometer": "PotentiometerDecl", "Ultrasonic": "UltrasonicDecl",
    "SerialMonitor": "SerialMonitorDecl",
}


def device_of(cname: str) -> Optional[str]:
    for dev in sorted(DECL_FOR, key=len, reverse=True):
        if cname.startswith(dev) and cname != DECL_FOR[dev]:
            return dev
    if cname == "SerialWrite":
        return "SerialMonitor"
    return None


def decl_node(dev: str, **over):
    cls, fields = pe.ir_classes()
    cname = DECL_FOR[dev]
    kw = {}
    for fname, ann, d in fields[cname]:
        if fname == "name":
            kw[fname] = "dev"
        elif d[0] == "required" or fname == "pin":
            kw[fname] = {"pin": 7, "red_pin": 3, "green_pin": 5, "blue_pin": 6, "in1": 2, "in2": 4, "enable": 9, "trig": 10, "echo": 11,
                         "cols": 16, "rows": 2}.get(fname, 7)
            if cname == "PotentiometerDecl":
                kw[fname] = "A0"
    kw.update(over)
    return cls[cname](**kw)


def lcd_decl(interface="parallel", backlight=True):
    if interface == "i2c":
        return decl_node("LCD", interface="i2c", i2c_addr=39, backlight_pin=None)
    return decl_node("LCD", interface="parallel", rs=12, en=11, d4=5, d5=4, d6=3, d7=2, backlight_pin=(10 if backlight else None))


_AST_CACHE: Dict[str, dict] = {}


def functions_of(text: str, names: List[str], hole_type="int") -> Dict[str, list]:
    key = text + "|" + ",".join(names) + hole_type
    if key not in _AST_CACHE:
        _AST_CACHE[key] = cxx.ast_functions(cxx.with_prelude(text, hole_type), names)
    return _AST_CACHE[key]


def global_decls(text: str) -> Dict[str, Tuple[str, str]]:
    """name -> (type, initialiser text) of the file-scope variables of an emitted sketch"""
    out = {}
    depth = 0
    for line in text.split("\n"):
        if depth == 0:
            m = re.match(r"^(?:const\s+)?([A-Za-z_][\w:<>]*(?:\s+[A-Za-z_]\w*)?)\s+([A-Za-z_]\w*)\s*(?:=\s*(.*?))?;\s*$", line)
            if m and "(" not in m.group(1) and not line.startswith(("#", "return", "template", "typedef", "extern")):
                out[m.group(2)] = (m.group(1).strip(), (m.group(3) or "").strip())
            m2 = re.match(r"^([A-Za-z_][\w]*)\s+([A-Za-z_]\w*)\((.*)\);\s*$", line)
            if m2 and m2.group(1) in ("LiquidCrystal", "LiquidCrystal_I2C", "Servo"):
                out[m2.group(2)] = (m2.group(1), m2.group(3))
        depth += line.count("{") - line.count("}")
    return out

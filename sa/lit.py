"""E3 - literal/table evaluator over syntax trees.  No repository function is ever called:
only literal displays, str methods on literal strings (split/strip/lower/upper), set()/frozenset()/
tuple()/list()/dict() of literals, references to module-level constants and re.compile(<literal>)
are evaluated, by this module, on the parsed tree."""
from __future__ import annotations

import ast
from typing import Any, Optional

from .core import AnalysisError


class NotLiteral(Exception):
    pass


class Regex:
    def __init__(self, pattern: str, flags_src: str = ""):
        self.pattern = pattern
        self.flags_src = flags_src

    def __repr__(self):
        return f"Regex({self.pattern!r})"


class AstKey:
    """``ast.Add`` used as a dict key in a table: compared by name."""

    def __init__(self, name: str):
        self.name = name

    def __hash__(self):
        return hash(("astkey", self.name))

    def __eq__(self, o):
        return isinstance(o, AstKey) and o.name == self.name

    def __repr__(self):
        return f"ast.{self.name}"


class Ref:
    """Reference to something that is not data (a function such as ``op.add`` or ``int``)."""

    def __init__(self, name: str):
        self.name = name

    def __hash__(self):
        return hash(("ref", self.name))

    def __eq__(self, o):
        return isinstance(o, Ref) and o.name == self.name

    def __repr__(self):
        return f"<{self.name}>"


def ev(node: ast.AST, mod=None, env: Optional[dict] = None, depth: int = 0) -> Any:
    if depth > 20:
        raise NotLiteral("too deep")
    env = env or {}
    if isinstance(node, ast.Constant):
        return node.value
    if isinstance(node, ast.JoinedStr):
        out = []
        for v in node.values:
            if isinstance(v, ast.Constant):
                out.append(str(v.value))
            else:
                raise NotLiteral("f-string with holes")
        return "".join(out)
    if isinstance(node, (ast.List, ast.Tuple, ast.Set)):
        vals = [ev(e, mod, env, depth + 1) for e in node.elts]
        if isinstance(node, ast.List):
            return vals
        if isinstance(node, ast.Tuple):
            return tuple(vals)
        return set(vals)
    if isinstance(node, ast.Dict):
        d = {}
        for k, v in zip(node.keys, node.values):
            if k is None:
                raise NotLiteral("dict unpacking")
            d[ev(k, mod, env, depth + 1)] = ev(v, mod, env, depth + 1)
        return d
    if isinstance(node, ast.UnaryOp) and isinstance(node.op, (ast.USub, ast.UAdd)):
        v = ev(node.operand, mod, env, depth + 1)
        if isinstance(v, (int, float)):
            return -v if isinstance(node.op, ast.USub) else v
        raise NotLiteral("unary on non-number")
    if isinstance(node, ast.BinOp) and isinstance(node.op, ast.Add):
        a, b = ev(node.left, mod, env, depth + 1), ev(node.right, mod, env, depth + 1)
        if isinstance(a, str) and isinstance(b, str):
            return a + b
        raise NotLiteral("binop")
    if isinstance(node, ast.Name):
        if node.id in env:
            return env[node.id]
        if mod is not None and node.id in mod.consts:
            return ev(mod.consts[node.id], mod, env, depth + 1)
        if node.id in ("int", "float", "str", "bool", "len", "abs", "max", "min"):
            return Ref(node.id)
        raise NotLiteral(f"name {node.id}")
    if isinstance(node, ast.Attribute):
        if isinstance(node.value, ast.Name) and node.value.id == "ast":
            return AstKey(node.attr)
        if isinstance(node.value, ast.Name) and node.value.id in ("op", "operator"):
            return Ref("operator." + node.attr)
        raise NotLiteral("attribute")
    if isinstance(node, ast.Call):
        f = node.func
        if isinstance(f, ast.Attribute) and isinstance(f.value, ast.Name) and f.value.id == "re" and f.attr == "compile":
            pat = ev(node.args[0], mod, env, depth + 1)
            if not isinstance(pat, str):
                raise NotLiteral("re.compile of non-str")
            fl = ast.unparse(node.args[1]) if len(node.args) > 1 else ""
            return Regex(pat, fl)
        if isinstance(f, ast.Attribute) and f.attr in ("split", "strip", "lower", "upper", "splitlines") and not node.keywords:
            base = ev(f.value, mod, env, depth + 1)
            if isinstance(base, str):
                args = [ev(a, mod, env, depth + 1) for a in node.args]
                return getattr(base, f.attr)(*args)
            raise NotLiteral("method on non-str")
        if isinstance(f, ast.Name) and f.id in ("frozenset", "set", "tuple", "list", "dict", "sorted") and not node.keywords:
            if not node.args:
                return {"frozenset": frozenset(), "set": set(), "tuple": (), "list": [], "dict": {}, "sorted": []}[f.id]
            inner = ev(node.args[0], mod, env, depth + 1)
            if f.id == "frozenset":
                return frozenset(inner)
            if f.id == "set":
                return set(inner)
            if f.id == "tuple":
                return tuple(inner)
            if f.id == "list":
                return list(inner)
            if f.id == "sorted":
                return sorted(inner)
            return dict(inner)
        raise NotLiteral("call")
    raise NotLiteral(type(node).__name__)


def table(mod, name: str):
    try:
        return ev(mod.const(name), mod)
    except NotLiteral as e:
        # a table built with small pure helpers (list repetition, comprehension): evaluate it with the
        # decision-list interpreter; anything else is an idiom change
        from . import dl
        try:
            return dl.Interp(mod).expr(mod.const(name), {})
        except (dl.Unsupported, dl.Raised) as e2:
            raise AnalysisError(f"{mod.rel}:{name} is no longer an evaluable table ({e}; {e2})")


def try_ev(node, mod=None, env=None, default=None):
    try:
        return ev(node, mod, env)
    except NotLiteral:
        return default
